/-
Helper lemmas for the text-level totality / soundness theorems (Props/C03Text.lean), which speak
about EVERY input text, not only the rendering of a tree:

* §1  the shape of the tokens lexical analysis emits (`LexShape`, `lexTok_shape`,
      `lexAnalysis_shape`): a constant with its value, a variable decorated with its name, or a
      payload-free operator / punctuation token; so the output is `varDecor` of a list of
      canonical tokens (`undecor`, `lexAnalysis_canon`);
* §2  `runParse` commutes with a token map the parser cannot observe (`runParse_map`), and
      `performParsing` is `runParse` with the driver's fuel (`performParsing_eq`);
* §3  counting: lexical analysis never creates tokens, the tokenizer delivers at most
      `length + 2` tokens, trimming never lengthens (`parserTokens_le`);
* §4  the argument counts of a tree are below `N` as soon as its sentence has fewer than `N + 3`
      tokens (a call spends three tokens on its name and its parentheses);
* §5  the text environment never panics in an operation or a function call.
-/
import Verif.Lemmas.Totality
import Verif.Props.C01Text

namespace Verif
open Expr

/-! ## §1 the tokens lexical analysis emits -/

/-- the three kinds of token `completeLexicalAnalysis` creates -/
inductive LexShape : ETok V → Prop where
  | const (v : V) : LexShape ⟨.constant, [], some v, 0⟩
  | var (name : List Rune) (h : name ≠ []) : LexShape ⟨.variable, name, some (.str name), 0⟩
  | op (ty : ET) (h : ty ∈ operatorTable.map (·.2)) : LexShape ⟨ty, [], none, 0⟩

/-- drop the payload of a Variable token (the inverse of `varDecor` on lexical output) -/
def undecor (tok : ETok V) : ETok V :=
  if tok.typ == .variable then { tok with cst := none } else tok

theorem operatorTable_types : ∀ ty ∈ operatorTable.map (·.2), ty ≠ .constant ∧ ty ≠ .variable := by
  decide

theorem lookupOperator_mem (v : List Rune) (ty : ET) (h : lookupOperator v = some ty) :
    ty ∈ operatorTable.map (·.2) := by
  unfold lookupOperator at h
  cases hf : operatorTable.find? (fun e => strOf e.1 == upperFullStr v) with
  | none => rw [hf] at h; cases h
  | some e =>
    rw [hf] at h
    simp only [Option.map_some, Option.some.injEq] at h
    subst h
    exact List.mem_map_of_mem (List.mem_of_find?_eq_some hf)

/-- **one token**: whatever `lexTok` emits has one of the three shapes -/
theorem lexTok_shape (t : Tok) (et : ETok V) (h : lexTok t = .ok (some et)) : LexShape et := by
  unfold lexTok at h
  split at h
  · cases h
  split at h
  · -- keyword
    simp only at h
    split at h
    · cases h; exact .const _
    split at h
    · cases h; exact .const _
    split at h
    · rename_i ty hl
      cases h
      exact .op ty (lookupOperator_mem _ ty hl)
    · cases h
  split at h
  · -- word
    split at h
    · cases h
    · rename_i hne
      cases h
      refine .var _ ?_
      intro he
      rw [he] at hne
      exact hne rfl
  split at h
  · -- integer
    split at h
    · cases h; exact .const _
    · cases h
  split at h
  · -- float
    split at h
    · cases h; exact .const _
    · cases h
  split at h
  · cases h; exact .const _
  split at h
  · -- symbol
    split at h
    · rename_i ty hl
      cases h
      exact .op ty (lookupOperator_mem _ ty hl)
    · cases h
  · cases h

/-- **lexical analysis, shape of the output** -/
theorem lexAnalysis_shape : ∀ (toks : List Tok) (out : List (ETok V)),
    lexAnalysis toks = .ok out → ∀ tok ∈ out, LexShape tok
  | [], out, h => by
    simp only [lexAnalysis, Except.ok.injEq] at h
    subst h
    intro tok ht; cases ht
  | t :: ts, out, h => by
    rw [lexAnalysis] at h
    cases ht : lexTok t with
    | error e => rw [ht] at h; cases h
    | ok o =>
      cases o with
      | none =>
        rw [ht] at h
        exact lexAnalysis_shape ts out h
      | some et =>
        rw [ht] at h
        simp only at h
        cases hr : lexAnalysis ts with
        | error e => rw [hr] at h; cases h
        | ok rest =>
          rw [hr] at h
          simp only [Except.ok.injEq] at h
          subst h
          intro tok hm
          rcases List.mem_cons.mp hm with rfl | hm
          · exact lexTok_shape t _ ht
          · exact lexAnalysis_shape ts rest hr tok hm

/-- lexical analysis never creates tokens -/
theorem lexAnalysis_length : ∀ (toks : List Tok) (out : List (ETok V)),
    lexAnalysis toks = .ok out → out.length ≤ toks.length
  | [], out, h => by
    simp only [lexAnalysis, Except.ok.injEq] at h
    subst h
    exact Nat.le_refl _
  | t :: ts, out, h => by
    rw [lexAnalysis] at h
    cases ht : lexTok t with
    | error e => rw [ht] at h; cases h
    | ok o =>
      cases o with
      | none =>
        rw [ht] at h
        have := lexAnalysis_length ts out h
        simp only [List.length_cons]
        omega
      | some et =>
        rw [ht] at h
        simp only at h
        cases hr : lexAnalysis ts with
        | error e => rw [hr] at h; cases h
        | ok rest =>
          rw [hr] at h
          simp only [Except.ok.injEq] at h
          subst h
          have := lexAnalysis_length ts rest hr
          simp only [List.length_cons]
          omega

/-- a token of lexical shape is the decoration of a canonical token -/
theorem LexShape.canon {tok : ETok V} (h : LexShape tok) :
    Sound.Canon (undecor tok) ∧ varDecor (undecor tok) = tok := by
  cases h with
  | const v =>
    have hu : undecor (⟨.constant, [], some v, 0⟩ : ETok V) = ⟨.constant, [], some v, 0⟩ := rfl
    rw [hu]
    exact ⟨⟨fun _ => ⟨v, rfl⟩, fun h => (by cases h), fun h _ => absurd rfl h⟩, rfl⟩
  | var name hne =>
    have hu : undecor (⟨.variable, name, some (.str name), 0⟩ : ETok V) =
        ⟨.variable, name, none, 0⟩ := rfl
    rw [hu]
    refine ⟨⟨fun h => (by cases h), fun _ => rfl, fun _ h => absurd rfl h⟩, ?_⟩
    have : name.isEmpty = false := by
      cases name with
      | nil => exact absurd rfl hne
      | cons a r => rfl
    simp [varDecor, this]
  | op ty hty =>
    obtain ⟨h1, h2⟩ := operatorTable_types ty hty
    have hu : undecor (⟨ty, [], none, 0⟩ : ETok V) = ⟨ty, [], none, 0⟩ := by
      unfold undecor; split <;> rfl
    rw [hu]
    exact ⟨⟨fun h => absurd h h1, fun h => absurd h h2, fun _ _ => rfl⟩, varDecor_plain ty 0⟩

/-- **lexical analysis delivers decorated canonical tokens**: the output is `varDecor` of a list
of `Sound.Canon` tokens (the form `Parser.p0_map` and `C02_no_silent_skip` compose with) -/
theorem lexAnalysis_canon (toks : List Tok) (out : List (ETok V))
    (h : lexAnalysis toks = .ok out) :
    (∀ tok ∈ out.map undecor, Sound.Canon tok) ∧ (out.map undecor).map varDecor = out := by
  have hs := lexAnalysis_shape toks out h
  constructor
  · intro tok hm
    obtain ⟨a, ha, rfl⟩ := List.mem_map.mp hm
    exact (hs a ha).canon.1
  · rw [List.map_map]
    conv => rhs; rw [← List.map_id out]
    apply List.map_congr_left
    intro a ha
    exact (hs a ha).canon.2

/-! ## §2 `runParse`, token maps, `performParsing` -/

/-- `runParse` commutes with a token map the parser cannot observe -/
theorem runParse_map {κ : Type} {g : ETok κ → ETok κ} (hg : Parser.TokMap g) (f : Nat)
    (toks : List (ETok κ)) :
    runParse f (toks.map g) = Parser.mapE (Parser.mapSt g) (runParse f toks) := by
  have h := Parser.p0_map hg f ⟨toks, [], []⟩
  simp only [Parser.mapSt, List.map_nil] at h
  unfold runParse
  rw [h]
  cases Parser.p0 f ⟨toks, [], []⟩ with
  | error e => rfl
  | ok st =>
    simp only [Parser.mapE, Parser.mapSt, List.isEmpty_map]
    split <;> rfl

/-- an accepted mapped input comes from an accepted input -/
theorem runParse_map_ok {κ : Type} {g : ETok κ → ETok κ} (hg : Parser.TokMap g) (f : Nat)
    (toks : List (ETok κ)) (st : PState κ) (h : runParse f (toks.map g) = .ok st) :
    ∃ st0, runParse f toks = .ok st0 ∧ st = Parser.mapSt g st0 := by
  rw [runParse_map hg] at h
  cases hr : runParse f toks with
  | error e => rw [hr] at h; cases h
  | ok st0 =>
    rw [hr] at h
    simp only [Parser.mapE, Except.ok.injEq] at h
    exact ⟨st0, rfl, h.symm⟩

/-- a rejected mapped input is rejected with the same error -/
theorem runParse_map_error {κ : Type} {g : ETok κ → ETok κ} (hg : Parser.TokMap g) (f : Nat)
    (toks : List (ETok κ)) (e : PErr) :
    runParse f (toks.map g) = .error e ↔ runParse f toks = .error e := by
  rw [runParse_map hg]
  cases runParse f toks with
  | error e' => exact Iff.rfl
  | ok st0 => simp [Parser.mapE]

/-- what `performParsing` does after lexical analysis, as a function of the `runParse` answer -/
def parseOutcomeOf (r : Except PErr (PState V)) : ParseOutcome :=
  match r with
  | .error e => .synErr e
  | .ok st => .ok st.out st.vars

/-- `performParsing` is: nothing to do on an empty token list; else lexical analysis, then
`runParse` with the driver's fuel -/
theorem performParsing_eq (orig : List Tok) :
    performParsing orig =
      if orig.isEmpty then .ok [] [] else
      match lexAnalysis orig with
      | .error e => .lexErr e
      | .ok initial => parseOutcomeOf (runParse (syntaxFuel initial.length) initial) := by
  unfold performParsing
  split
  · rfl
  · cases lexAnalysis orig with
    | error e => rfl
    | ok initial =>
      simp only [runParse, parseOutcomeOf]
      cases Parser.p0 (syntaxFuel initial.length) ⟨initial, [], []⟩ with
      | error e => rfl
      | ok st =>
        simp only
        split <;> rfl

/-! ## §3 counting tokens -/

theorem trimBlank_length_le (s : List Rune) : (trimBlank s).length ≤ s.length := by
  unfold trimBlank
  rw [List.length_reverse]
  have h1 := (List.dropWhile_sublist isBlankR (l := (s.dropWhile isBlankR).reverse)).length_le
  have h2 := (List.dropWhile_sublist isBlankR (l := s)).length_le
  rw [List.length_reverse] at h1
  omega

/-- the tokenizer under the parser's options delivers at most `length + 2` tokens -/
theorem tokenizeExpression_length_le (text : List Rune) :
    (tokenizeExpression text).length ≤ text.length + 2 := by
  unfold tokenizeExpression
  simp only
  split
  · simp
  · have h := drain_length_le expressionCfg rawContract_expression exprOpts
      ((trimBlank text).length + 3) (TState.start (trimBlank text)) (loopOK_start _)
    rw [tokBudget_start] at h
    have h2 := trimBlank_length_le text
    unfold tokenize
    omega

/-- **parser tokens ≤ tokenizer tokens ≤ text length + 2** -/
theorem parserTokens_le (text : List Rune) (initial : List (ETok V))
    (h : lexAnalysis (tokenizeExpression text) = .ok initial) :
    initial.length ≤ text.length + 2 := by
  have h1 := lexAnalysis_length _ _ h
  have h2 := tokenizeExpression_length_le text
  omega

/-! ## §4 argument counts against the length of the sentence, with the slack of a call -/

namespace Expr
variable {κ : Type}

mutual
/-- a call spends three tokens on its name and its parentheses: fewer than `N + 3` tokens bound
every argument count by `N` -/
theorem argcLt_of_length3 (N : Nat) : ∀ t : Expr κ, (unparse t).length < N + 3 → argcLt N t = true
  | .const _, _ => rfl
  | .var _, _ => rfl
  | .paren e, h => by
    simp only [unparse, List.length_append, List.length_cons, List.length_nil] at h
    simp only [argcLt]; exact argcLt_of_length3 N e (by omega)
  | .call _ args, h => by
    simp only [unparse, List.length_append, List.length_cons, List.length_nil] at h
    have := argsLength_le args
    simp only [argcLt, Bool.and_eq_true, decide_eq_true_eq]
    exact ⟨by omega, argcLtArgs_of_length3 N args (by omega)⟩
  | .neg e, h => by
    simp only [unparse, List.length_append, List.length_cons, List.length_nil] at h
    simp only [argcLt]; exact argcLt_of_length3 N e (by omega)
  | .pos e, h => by
    simp only [unparse, List.length_append, List.length_cons, List.length_nil] at h
    simp only [argcLt]; exact argcLt_of_length3 N e (by omega)
  | .index e i, h => by
    simp only [unparse, List.length_append, List.length_cons, List.length_nil] at h
    simp only [argcLt, Bool.and_eq_true]
    exact ⟨argcLt_of_length3 N e (by omega), argcLt_of_length3 N i (by omega)⟩
  | .bin _ l r, h => by
    simp only [unparse, List.length_append, List.length_cons, List.length_nil] at h
    simp only [argcLt, Bool.and_eq_true]
    exact ⟨argcLt_of_length3 N l (by omega), argcLt_of_length3 N r (by omega)⟩
  | .notLike l r, h => by
    simp only [unparse, List.length_append, List.length_cons, List.length_nil] at h
    simp only [argcLt, Bool.and_eq_true]
    exact ⟨argcLt_of_length3 N l (by omega), argcLt_of_length3 N r (by omega)⟩
  | .notIn l r, h => by
    simp only [unparse, List.length_append, List.length_cons, List.length_nil] at h
    simp only [argcLt, Bool.and_eq_true]
    exact ⟨argcLt_of_length3 N l (by omega), argcLt_of_length3 N r (by omega)⟩
  | .not e, h => by
    simp only [unparse, List.length_append, List.length_cons, List.length_nil] at h
    simp only [argcLt]; exact argcLt_of_length3 N e (by omega)
  | .isNull e, h => by
    simp only [unparse, List.length_append, List.length_cons, List.length_nil] at h
    simp only [argcLt]; exact argcLt_of_length3 N e (by omega)
  | .isNotNull e, h => by
    simp only [unparse, List.length_append, List.length_cons, List.length_nil] at h
    simp only [argcLt]; exact argcLt_of_length3 N e (by omega)
theorem argcLtArgs_of_length3 (N : Nat) :
    ∀ a : Args κ, (unparseArgs a).length < N + 3 → argcLtArgs N a = true
  | .nil, _ => rfl
  | .cons e rest, h => by
    have h3 := unparseArgs_cons_length e rest
    simp only [argcLtArgs, Bool.and_eq_true]
    exact ⟨argcLt_of_length3 N e (by omega), argcLtArgs_of_length3 N rest (by omega)⟩
end

end Expr

/-! ## §5 the text environment never panics in an operation or a function call

`textEnv m vars = calcEnvK m id vars` has the same operations as `calcEnv m dec vars` (only
`ofConst` differs), so the `calcEnv` facts of Lemmas/Totality.lean apply by unfolding. -/

theorem textEnv_callFn_ne_panic (m : Mgr) (vars : List (List Rune × V)) (name : List Rune)
    (args : List V) (s : String) : (textEnv m vars).callFn name args ≠ .panic s :=
  calcEnv_callFn_ne_panic m (fun _ => .null) vars name args s

theorem textEnv_binop_ne_panic (m : Mgr) (vars : List (List Rune × V)) (op : ET) (v w : V)
    (s : String) : (textEnv m vars).binop op v w ≠ .panic s :=
  calcEnv_binop_ne_panic m (fun _ => .null) vars op v w s

theorem textEnv_unop_ne_panic (m : Mgr) (vars : List (List Rune × V)) (op : ET) (v : V)
    (s : String) : (textEnv m vars).unop op v ≠ .panic s :=
  calcEnv_unop_ne_panic m (fun _ => .null) vars op v s

end Verif

/-! ## §6 a kernel-friendly path for examples

`lookupOperator` upper-cases the spelling with the generated Unicode case table once per table
row; the kernel needs minutes for one look-up.  On tokens without lower-case letters the
upper-casing is the identity (`upperFull_lt97`), so the examples go through a copy of `lexTok`
with plain table search. -/

namespace Verif

def lookupOperatorU (v : List Rune) : Option ET :=
  (operatorTable.find? (fun e => strOf e.1 == v)).map (·.2)

/-- `lexTok` without upper-casing -/
def lexTokU (t : Tok) : Except LexErr (Option (ETok V)) :=
  if t.typ == TT.whitespace then .ok none
  else if t.typ == TT.keyword then
    if t.value == strOf "TRUE" then .ok (some ⟨.constant, [], some (.bool true), 0⟩)
    else if t.value == strOf "FALSE" then .ok (some ⟨.constant, [], some (.bool false), 0⟩)
    else match lookupOperatorU t.value with
      | some ty => .ok (some ⟨ty, [], none, 0⟩)
      | none => .error .unknownSymbol
  else if t.typ == TT.word then
    if t.value.isEmpty then .error .unknownSymbol
    else .ok (some ⟨.variable, t.value, some (.str t.value), 0⟩)
  else if t.typ == TT.integer then
    match decodeInt t.value with
    | some i => .ok (some ⟨.constant, [], some (.int i), 0⟩)
    | none => .error .constRange
  else if t.typ == TT.float then
    match decodeFloat32 t.value with
    | some b => .ok (some ⟨.constant, [], some (.float (Float32.ofBits b)), 0⟩)
    | none => .error .constRange
  else if t.typ == TT.quoted then .ok (some ⟨.constant, [], some (.str t.value), 0⟩)
  else if t.typ == TT.symbol then
    match lookupOperatorU t.value with
    | some ty => .ok (some ⟨ty, [], none, 0⟩)
    | none => .error .unknownSymbol
  else .error .unknownSymbol

def lexAnalysisU : List Tok → Except LexErr (List (ETok V))
  | [] => .ok []
  | t :: ts =>
    match lexTokU t with
    | .error e => .error e
    | .ok none => lexAnalysisU ts
    | .ok (some et) =>
      match lexAnalysisU ts with
      | .error e => .error e
      | .ok rest => .ok (et :: rest)

def performParsingU (orig : List Tok) : ParseOutcome :=
  if orig.isEmpty then .ok [] [] else
  match lexAnalysisU orig with
  | .error e => .lexErr e
  | .ok initial => parseOutcomeOf (runParse (syntaxFuel initial.length) initial)

/-- no token value contains a rune from `a` upwards (lower-case letters in particular) -/
def noLower (toks : List Tok) : Bool := toks.all fun t => t.value.all fun c => decide (c < 97)

theorem lexTok_upper (t : Tok) (h : ∀ c ∈ t.value, c < 97) : lexTok t = lexTokU t := by
  unfold lexTok lexTokU lookupOperatorU
  rw [lookupOperator_upper _ h, upperFullStr_id _ h]
  rfl

theorem lexAnalysis_upper : ∀ toks : List Tok, noLower toks = true →
    lexAnalysis toks = lexAnalysisU toks
  | [], _ => rfl
  | t :: ts, h => by
    simp only [noLower, List.all_cons, Bool.and_eq_true, List.all_eq_true, decide_eq_true_eq] at h
    have ih := lexAnalysis_upper ts (by
      simp only [noLower, List.all_eq_true, decide_eq_true_eq]; exact h.2)
    rw [lexAnalysis, lexAnalysisU, lexTok_upper t h.1, ih]
    rfl

theorem performParsing_upper (orig : List Tok) (h : noLower orig = true) :
    performParsing orig = performParsingU orig := by
  rw [performParsing_eq, lexAnalysis_upper orig h]
  rfl

theorem parseString_upper (text : List Rune) (h : noLower (tokenizeExpression text) = true) :
    parseString text = performParsingU (tokenizeExpression text) :=
  performParsing_upper _ h

/-- `calculate` through `performParsingU` -/
def calculateU (m : Mgr) (text : List Rune) (vars : List (List Rune × V)) : Except String (Out V) :=
  match performParsingU (tokenizeExpression text) with
  | .ok prog _ => .ok (evaluate (textEnv m vars) prog)
  | .lexErr e => .error e.code
  | .synErr e => .error e.code

theorem calculate_upper (m : Mgr) (text : List Rune) (vars : List (List Rune × V))
    (h : noLower (tokenizeExpression text) = true) :
    calculate m text vars = calculateU m text vars := by
  unfold calculate calculateU
  rw [parseString_upper text h]
  rfl

end Verif
