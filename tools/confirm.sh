#!/bin/bash
# usage: confirm.sh <mutant dir with patch.diff + demo_test.go>  → prints CONFIRMED or reason
export GOFLAGS=-mod=mod GOPROXY=off GOSUMDB=off GOTOOLCHAIN=local
d="$1"; wt=/tmp/mut/verify
cd $wt && git checkout -q -- . && rm -rf test/demo
git apply "$d/patch.diff" 2>/dev/null || { echo "NO: patch does not apply"; exit 1; }
go build ./... 2>/dev/null || { echo "NO: does not compile"; git checkout -q -- .; exit 1; }
go test -vet=off -count=1 ./... >/tmp/mut/verify.log 2>&1 || { echo "NO: existing tests fail with mutant"; git checkout -q -- .; exit 1; }
mkdir -p test/demo && cp "$d/demo_test.go" test/demo/
if go test -vet=off -count=1 ./test/demo/ >/tmp/mut/verify.log 2>&1; then echo "NO: demo passes with mutant"; git checkout -q -- .; rm -rf test/demo; exit 1; fi
git checkout -q -- .
if ! go test -vet=off -count=1 ./test/demo/ >/tmp/mut/verify.log 2>&1; then echo "NO: demo fails without mutant"; rm -rf test/demo; exit 1; fi
rm -rf test/demo
echo CONFIRMED
