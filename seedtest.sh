#!/bin/sh
# usage: ./seedtest.sh <patch.diff> <Cxx> [<Cyy> ...]
# Applies a seeded change to /repo, runs the quick checks of the given properties, restores /repo.
# (self-validation tool; not referenced by MANIFEST.json)
set -u
patch="$1"; shift
cd /verif
git -C /repo diff --quiet || { echo "/repo is dirty, refusing"; exit 2; }
git -C /repo apply "$patch" || { echo "patch does not apply"; exit 2; }
for p in "$@"; do
  echo "=== $p"
  ./check "$p" ${TIER:-quick} 2>&1 | grep -E "^(OK|VIOLATION|KNOWN|  failing input|  implementation|   |  no longer)" | cut -c1-400 | head -8
done
git -C /repo checkout -- .
git -C /repo status --short | head -3
