package main

import (
	"fmt"
	rio "github.com/pip-services3-gox/pip-services3-expressions-gox/io"
	"strings"
	"time"

	ctok "github.com/pip-services3-gox/pip-services3-expressions-gox/calculator/tokenizers"
	"github.com/pip-services3-gox/pip-services3-expressions-gox/csv"
	mtok "github.com/pip-services3-gox/pip-services3-expressions-gox/mustache/tokenizers"
	"github.com/pip-services3-gox/pip-services3-expressions-gox/tokenizers"
	"github.com/pip-services3-gox/pip-services3-expressions-gox/tokenizers/generic"
)

// shared tokenizer runner for C04 C05 C09 C12 C13 C15

type tk struct {
	Typ   int
	Val   []rune
	Line  int
	Col   int
	Start int // filled by the oracles
}

func showTks(ts []tk) string {
	if len(ts) == 0 {
		return "-"
	}
	var sb strings.Builder
	for i, t := range ts {
		if i > 0 {
			sb.WriteByte(' ')
		}
		fmt.Fprintf(&sb, "%d:%s:%d:%d", t.Typ, runesStr(t.Val), t.Line, t.Col)
	}
	return sb.String()
}

type tokzr interface {
	tokenizers.ITokenizer
	GetCharacterState(symbol rune) tokenizers.ITokenizerState
}

// kind: g | e | m | c:<seps>:<quotes>
func newTokenizer(kind string) tokzr {
	switch {
	case kind == "g":
		return generic.NewGenericTokenizer()
	case kind == "e":
		return ctok.NewExpressionTokenizer()
	case kind == "m":
		return mtok.NewMustacheTokenizer()
	case strings.HasPrefix(kind, "K") && len(kind) >= 3:
		// a generic / expression tokenizer re-configured by the user: K<g|e>|<op>~<op>…  (ops as in the tokc protocol)
		t := newTokenizer(kind[1:2]).(cfgTokzr)
		if len(kind) > 3 {
			for _, x := range strings.Split(kind[3:], "~") {
				if o, ok := parseCfgOp(x); ok {
					applyCfgOp(t, o)
				}
			}
		}
		return t
	case kind == "Q":
		// an application-defined quote state registered with SetQuoteState only (the quote characters stay mapped to the
		// stock state that reads them): decodeStrings decodes with the REGISTERED quote state
		t := generic.NewGenericTokenizer()
		t.SetQuoteState(&userQuoteState{inner: generic.NewGenericQuoteState(), tag: "user"})
		return t
	case kind == "P":
		// the generic tokenizer with the library's C++ comment state (// … and /* … */) plugged in for '/'
		t := generic.NewGenericTokenizer()
		cs := generic.NewCppCommentState()
		t.SetCommentState(cs)
		t.SetCharacterState('/', '/', cs)
		return t
	case kind == "h" || kind == "H":
		// a user number state plugged in through the public extension points: 0x… literals come out with the public
		// HexDecimal token type, everything else is left to the stock number state (h generic, H expression tokenizer)
		var t interface {
			tokzr
			SetNumberState(tokenizers.INumberState)
			NumberState() tokenizers.INumberState
			SetCharacterState(rune, rune, tokenizers.ITokenizerState)
		}
		if kind == "h" {
			t = generic.NewGenericTokenizer()
		} else {
			t = ctok.NewExpressionTokenizer()
		}
		hs := &hexNumberState{inner: t.NumberState()}
		t.SetNumberState(hs)
		t.SetCharacterState('0', '9', hs)
		return t
	case strings.HasPrefix(kind, "C:"), strings.HasPrefix(kind, "D:"), strings.HasPrefix(kind, "E:"):
		// the same configuration reached through another history of setter calls
		p := strings.Split(kind, ":")
		t := csv.NewCsvTokenizer()
		if kind[0] == 'C' {
			t.SetFieldSeparators(parseRunes(p[1]))
			t.SetQuoteSymbols(parseRunes(p[2]))
		} else if kind[0] == 'E' {
			// an earlier configuration with separators and quotes above U+00FF, used once, then the final one
			t.SetQuoteSymbols([]rune{0x201c, 0x416})
			t.SetFieldSeparators([]rune{0x4e16, 0x100, 0x2028})
			t.TokenizeBuffer("a\u4e16b\u201cc\u201c")
			t.SetQuoteSymbols([]rune{})
			t.SetFieldSeparators(parseRunes(p[1]))
			t.SetQuoteSymbols(parseRunes(p[2]))
		} else {
			t.SetQuoteSymbols([]rune{'\'', '`', '"'})
			t.SetFieldSeparators([]rune{'|'})
			t.SetFieldSeparators(parseRunes(p[1]))
			t.SetQuoteSymbols(parseRunes(p[2]))
		}
		return t
	case strings.HasPrefix(kind, "c:"):
		p := strings.Split(kind, ":")
		t := csv.NewCsvTokenizer()
		t.SetQuoteSymbols([]rune{})
		t.SetFieldSeparators(parseRunes(p[1]))
		t.SetQuoteSymbols(parseRunes(p[2]))
		return t
	}
	panic("bad kind " + kind)
}

type userQuoteState struct {
	inner tokenizers.IQuoteState
	tag   string
}

func (u *userQuoteState) NextToken(scanner rio.IScanner, tokenizer tokenizers.ITokenizer) *tokenizers.Token {
	return u.inner.NextToken(scanner, tokenizer)
}
func (u *userQuoteState) EncodeString(value string, quoteSymbol rune) string {
	return u.inner.EncodeString(value, quoteSymbol)
}
func (u *userQuoteState) DecodeString(value string, quoteSymbol rune) string {
	return "[" + u.tag + "]" + u.inner.DecodeString(value, quoteSymbol)
}

type hexNumberState struct{ inner tokenizers.INumberState }

func (h *hexNumberState) NextToken(scanner rio.IScanner, tokenizer tokenizers.ITokenizer) *tokenizers.Token {
	if scanner.Peek() == '0' {
		line, col := scanner.PeekLine(), scanner.PeekColumn()
		scanner.Read()
		if x := scanner.Peek(); x == 'x' || x == 'X' {
			scanner.Read()
			val := []rune{'0', x}
			isHex := func(r rune) bool { return r >= '0' && r <= '9' || r >= 'a' && r <= 'f' || r >= 'A' && r <= 'F' }
			for isHex(scanner.Peek()) {
				val = append(val, scanner.Read())
			}
			if len(val) > 2 {
				return tokenizers.NewToken(tokenizers.HexDecimal, string(val), line, col)
			}
			scanner.Unread()
		}
		scanner.Unread()
	}
	return h.inner.NextToken(scanner, tokenizer)
}

func setOpts(t tokenizers.ITokenizer, o int) {
	t.SetSkipUnknown(o&1 != 0)
	t.SetSkipWhitespaces(o&2 != 0)
	t.SetSkipComments(o&4 != 0)
	t.SetSkipEof(o&8 != 0)
	t.SetMergeWhitespaces(o&16 != 0)
	t.SetUnifyNumbers(o&32 != 0)
	t.SetDecodeStrings(o&64 != 0)
}

func conv(ts []*tokenizers.Token) []tk {
	out := make([]tk, len(ts))
	for i, t := range ts {
		out[i] = tk{Typ: t.Type(), Val: []rune(t.Value()), Line: t.Line(), Col: t.Column()}
	}
	return out
}

// tokenizeImpl runs TokenizeBuffer with a panic guard and a watchdog.
// status: "" ok, "panic:…", "hang"
func tokenizeOn(t tokenizers.ITokenizer, input string) ([]tk, string) {
	var res []tk
	st := safeCallT(3*time.Second, func() string {
		res = conv(t.TokenizeBuffer(input))
		return ""
	})
	return res, st
}

func tokenizeImpl(kind string, opts int, input string) ([]tk, string) {
	var t tokzr
	st := safeCall(func() string { t = newTokenizer(kind); setOpts(t, opts); return "" })
	if st != "" {
		return nil, st
	}
	return tokenizeOn(t, input)
}

func tokOpLine(kind string, opts int, input []rune) string {
	if strings.HasPrefix(kind, "K") && len(kind) >= 3 {
		ops := "-"
		if len(kind) > 3 {
			ops = kind[3:]
		}
		return fmt.Sprintf("tokc %s %d %s %s", kind[1:2], opts, ops, runesStr(input))
	}
	return fmt.Sprintf("tok %s %d %s", kind, opts, runesStr(input))
}

func implLine(ts []tk, st string) string {
	if st != "" {
		if strings.HasPrefix(st, "panic:") {
			return "panic"
		}
		return st
	}
	return showTks(ts)
}

func sameRunes(a, b []rune) bool {
	if len(a) != len(b) {
		return false
	}
	for i := range a {
		if a[i] != b[i] {
			return false
		}
	}
	return true
}

// ---- direct oracles --------------------------------------------------------

// C04: values concatenate to the input, every token but the last is non-empty, last is Eof
func oracleLossless(input []rune, ts []tk) string {
	var cat []rune
	for i, t := range ts {
		cat = append(cat, t.Val...)
		if i < len(ts)-1 && len(t.Val) == 0 {
			return fmt.Sprintf("token #%d is empty", i)
		}
	}
	if len(ts) == 0 || ts[len(ts)-1].Typ != tokenizers.Eof || len(ts[len(ts)-1].Val) != 0 {
		return "the last token is not the end-of-input marker"
	}
	if !sameRunes(cat, input) {
		return fmt.Sprintf("token values concatenate to %q, input is %q", string(cat), string(input))
	}
	return ""
}

// positions of the raw (all-off) stream: start offsets + C12 check
func oraclePositions(input []rune, ts []tk, starts []int) string {
	// one forward scan: (line, column) after k reads, k = 0 .. len+1
	n := len(input)
	ls, cs := make([]int, n+2), make([]int, n+2)
	sc := rio.NewStringScanner(string(input))
	for k := 0; k <= n+1; k++ {
		ls[k], cs[k] = sc.Line(), sc.Column()
		sc.Read()
	}
	for i, t := range ts {
		if t.Typ == tokenizers.Eof {
			l, c := ls[n], cs[n]
			if t.Line != l || t.Col != c+1 {
				return fmt.Sprintf("Eof token reports %d:%d, one column past the last character is %d:%d", t.Line, t.Col, l, c+1)
			}
			continue
		}
		l, c := ls[starts[i]+1], cs[starts[i]+1]
		if t.Line != l || t.Col != c {
			return fmt.Sprintf("token #%d (%q, starts at offset %d) reports %d:%d, its first character is at %d:%d", i, clip(string(t.Val)), starts[i], t.Line, t.Col, l, c)
		}
	}
	return ""
}

func clip(s string) string {
	if len(s) > 60 {
		return s[:60] + "…"
	}
	return s
}

// postOracle: what the option set `o` must turn the raw stream into (C15), computed from the
// implementation's own all-off stream and its own DecodeString.
func postOracle(t tokzr, raw []tk, o int) ([]tk, []int) {
	var out []tk
	var starts []int
	last := tokenizers.Unknown
	off := 0
	for _, r := range raw {
		start := off
		off += len(r.Val)
		if r.Typ == tokenizers.Eof {
			if o&8 == 0 {
				out = append(out, r)
				starts = append(starts, start)
			}
			continue
		}
		if r.Typ == tokenizers.Special {
			out = append(out, r)
			starts = append(starts, start)
			continue
		}
		x := r
		if x.Typ == tokenizers.Unknown && o&1 != 0 {
			continue
		}
		if o&64 != 0 && len(r.Val) > 0 {
			if _, ok := t.GetCharacterState(r.Val[0]).(tokenizers.IQuoteState); ok {
				x.Val = []rune(t.QuoteState().DecodeString(string(r.Val), r.Val[0]))
			}
		}
		if x.Typ == tokenizers.Comment && o&4 != 0 {
			continue
		}
		if x.Typ == tokenizers.Whitespace && last == tokenizers.Whitespace && o&2 != 0 {
			continue
		}
		if x.Typ == tokenizers.Whitespace && o&16 != 0 {
			x.Val = []rune{' '}
		}
		if o&32 != 0 && (x.Typ == tokenizers.Integer || x.Typ == tokenizers.Float || x.Typ == tokenizers.HexDecimal) {
			x.Typ = tokenizers.Number
		}
		out = append(out, x)
		starts = append(starts, start)
		last = x.Typ
	}
	return out, starts
}

func eqTks(a, b []tk) bool {
	if len(a) != len(b) {
		return false
	}
	for i := range a {
		if a[i].Typ != b[i].Typ || a[i].Line != b[i].Line || a[i].Col != b[i].Col || !sameRunes(a[i].Val, b[i].Val) {
			return false
		}
	}
	return true
}

// the C15 postconditions on an option stream
func oracleOptionPost(ts []tk, o int) string {
	for i, t := range ts {
		if o&1 != 0 && t.Typ == tokenizers.Unknown {
			return "Unknown token with skipUnknown on"
		}
		if o&4 != 0 && t.Typ == tokenizers.Comment {
			return "Comment token with skipComments on"
		}
		if o&8 != 0 && t.Typ == tokenizers.Eof {
			return "Eof token with skipEof on"
		}
		if o&2 != 0 && i > 0 && t.Typ == tokenizers.Whitespace && ts[i-1].Typ == tokenizers.Whitespace {
			return "two adjacent whitespace tokens with skipWhitespaces on"
		}
		if o&16 != 0 && t.Typ == tokenizers.Whitespace && string(t.Val) != " " {
			return "whitespace token is not a single space with mergeWhitespaces on"
		}
		if o&32 != 0 && (t.Typ == tokenizers.Integer || t.Typ == tokenizers.Float || t.Typ == tokenizers.HexDecimal) {
			return "un-unified number token with unifyNumbers on"
		}
	}
	return ""
}

// class alphabet: one representative per character class that selects a different state/branch
var classAlphabet = []rune{'a', '1', '.', '-', '/', '*', 'e', '+', '"', '\'', '<', '>', '=', '!', '{', '}', '#', ',', ' ', '\r', '\n', 0xe9, 0x4e16, 0x1f600}

var tokKinds = []string{"g", "e", "m", "c:44:34"}

// runes with a special role somewhere: ends of planes and of the UTF-8 lengths, non-characters, the replacement character,
// Unicode spaces and line separators, case-folding oddities
var specialRunes = []rune{0xffff, 0xfffe, 0x10000, 0xd7ff, 0xe000, 0x131, 0x17f, 0, 0x7f, 0xa0, 0xfeff, 0x100, 0xff, 0x212a, 0x2028,
	0xfffd, 0x85, 0x3000, 0x1680, 0x10ffff, 0x0b, 0x0c, 0x2029, 0x202f, 0x1000a, 0x2000d, 0x10000a, 0x10a, 0x20d}

func randInput(c *Ctx, maxLen int) []rune {
	n := c.Rng.Intn(maxLen + 1)
	out := make([]rune, n)
	for i := range out {
		switch c.Rng.Intn(10) {
		case 0:
			out[i] = rune(c.Rng.Intn(0x250))
		case 1:
			out[i] = specialRunes[c.Rng.Intn(len(specialRunes))]
		default:
			out[i] = classAlphabet[c.Rng.Intn(len(classAlphabet))]
		}
	}
	return out
}

func classify(input []rune) string {
	na := false
	for _, r := range input {
		if r > 0x7f {
			na = true
		}
	}
	if na {
		return "input:non-ascii"
	}
	return "input:ascii"
}

var lexGE = []string{"<=", "<>", ">=", "<<", ">>", "!=", "<", ">", "=", "a", "ab1", "AND", "not", "Null", "1", "1.5", ".5", "1e5", "1.5E-3", "2e+", "-", "-1", "-.5", "'x'", "\"y\"", "'a''b'", "/*c*/", "/**/", "//", "/* x", "#c\n", " ", "\t", "\n", "\r\n", "\u00e9", "\u4e16", "\U0001F600", "\uffff", "i\u017f", ".", "/", "*", "(", ")", "[", "]", ",", "e", "E", "+", "'", "\"", "_x", "x_1", "%", "^", "!"}
var lexM = []string{"{{", "}}", "{{{", "}}}", "{", "}", "#", "^", "/", "!", "if", "unless", "a", "B_1", "'}}'", "\"}}\"", "'x'", "\U0001F600", "\uffff", " ", "\n", "text ", "'", "\u4e16", ".", "1"}
var lexC = []string{",", ";", "\"", "\"\"", "'", "a", "bc", "\r", "\n", "\r\n", "\n\r", "\u00e9", "\u4e16", " ", "\u0416", "\u00ab"}

// lexeme soup: random concatenation of kind-specific lexemes (reaches multi-character symbols,
// comments, quoted literals, tags far more often than character soup)
func lexSoup(c *Ctx, kind string, maxLex int) []rune {
	pool := lexGE
	if kind == "m" {
		pool = lexM
	} else if strings.HasPrefix(kind, "c:") || strings.HasPrefix(kind, "C:") || strings.HasPrefix(kind, "D:") {
		pool = lexC
	}
	n := c.Rng.Intn(maxLex + 1)
	var sb strings.Builder
	for i := 0; i < n; i++ {
		sb.WriteString(pool[c.Rng.Intn(len(pool))])
	}
	return []rune(sb.String())
}

func newScanner(s string) *rio.StringScanner { return rio.NewStringScanner(s) }
