package main

import (
	"fmt"
	"strings"

	rio "github.com/pip-services3-gox/pip-services3-expressions-gox/io"
)

// C11: the scanner is a faithful cursor with position-only line/column.

func scanObs(s *rio.StringScanner) string {
	return fmt.Sprintf("%d/%d/%d/%d/%d", s.Line(), s.Column(), s.Peek(), s.PeekLine(), s.PeekColumn())
}

// fresh forward scan: (line, col) after k reads on a new scanner
func freshLC(content string, k int) (int, int) {
	s := rio.NewStringScanner(content)
	for i := 0; i < k; i++ {
		s.Read()
	}
	return s.Line(), s.Column()
}

// runScanCase executes one op sequence on the implementation, checks the cursor oracle and
// returns the implementation's observation line.
func runScanCase(c *Ctx, content []rune, ops []string) {
	cs := string(content)
	opLine := "scan " + runesStr(content) + " " + strings.Join(ops, " ")
	var oracle string
	impl := safeCall(func() string {
		s := rio.NewStringScanner(cs)
		n := len(content)
		pos := 0 // slots consumed according to the cursor semantics of the property
		stepNo := 0
		outs := []string{fmt.Sprintf("%d/%d/%d/%d/%d", s.Line(), s.Column(), s.Peek(), s.PeekLine(), s.PeekColumn())}
		check := func(step int, op string) {
			if oracle != "" {
				return
			}
			l, col := freshLC(cs, pos)
			if s.Line() != l || s.Column() != col {
				oracle = fmt.Sprintf("after op #%d (%s) at cursor %d: line/col %d:%d but a fresh forward scan reports %d:%d", step, op, pos, s.Line(), s.Column(), l, col)
				return
			}
			exp := rune(-1)
			if pos < n {
				exp = content[pos]
			}
			if s.Peek() != exp {
				oracle = fmt.Sprintf("after op #%d (%s) at cursor %d: peek=%d expected %d", step, op, pos, s.Peek(), exp)
				return
			}
			if pos < n {
				l2, c2 := freshLC(cs, pos+1)
				if s.PeekLine() != l2 || s.PeekColumn() != c2 {
					oracle = fmt.Sprintf("after op #%d (%s) at cursor %d: peeked %d:%d but after next read %d:%d", step, op, pos, s.PeekLine(), s.PeekColumn(), l2, c2)
				}
			}
		}
		check(0, "new")
		// what is looked at FIRST after an operation rotates: an accessor must not depend on another one having been
		// called before it
		scanObs := func(sc *rio.StringScanner) string {
			stepNo++
			if oracle == "" {
				p := pos
				if p > n+1 {
					p = n + 1
				}
				switch stepNo % 5 {
				case 1:
					if p < n {
						if _, c2 := freshLC(cs, p+1); sc.PeekColumn() != c2 {
							oracle = fmt.Sprintf("op #%d at cursor %d: PeekColumn(), asked first, gives %d; after the next read the column is %d", stepNo, p, sc.PeekColumn(), c2)
						}
					}
				case 2:
					if p < n {
						if l2, _ := freshLC(cs, p+1); sc.PeekLine() != l2 {
							oracle = fmt.Sprintf("op #%d at cursor %d: PeekLine(), asked first, gives %d; after the next read the line is %d", stepNo, p, sc.PeekLine(), l2)
						}
					}
				case 3:
					if _, c1 := freshLC(cs, p); sc.Column() != c1 {
						oracle = fmt.Sprintf("op #%d at cursor %d: Column(), asked first, gives %d; a fresh forward scan reports %d", stepNo, p, sc.Column(), c1)
					}
				}
			}
			return fmt.Sprintf("%d/%d/%d/%d/%d", sc.Line(), sc.Column(), sc.Peek(), sc.PeekLine(), sc.PeekColumn())
		}
		for i, op := range ops {
			switch {
			case op == "r":
				exp := rune(-1)
				if pos < n {
					exp = content[pos]
				}
				r := s.Read()
				if pos <= n {
					pos++
				}
				if r != exp && oracle == "" {
					oracle = fmt.Sprintf("op #%d read returned %d expected %d", i+1, r, exp)
				}
				outs = append(outs, fmt.Sprintf("%d/%s", r, scanObs(s)))
			case op == "u":
				s.Unread()
				if pos > 0 {
					pos--
				}
				outs = append(outs, "_/"+scanObs(s))
			case op[0] == 'm':
				var k int
				fmt.Sscanf(op[1:], "%d", &k)
				s.UnreadMany(k)
				for j := 0; j < k; j++ {
					if pos > 0 {
						pos--
					}
				}
				outs = append(outs, "_/"+scanObs(s))
			case op == "p":
				s.Peek()
				outs = append(outs, "_/"+scanObs(s))
			case op == "l":
				s.PeekLine()
				outs = append(outs, "_/"+scanObs(s))
			case op == "c":
				s.PeekColumn()
				outs = append(outs, "_/"+scanObs(s))
			case op == "x":
				s.Reset()
				pos = 0
				outs = append(outs, "_/"+scanObs(s))
			}
			check(i+1, op)
		}
		return strings.Join(outs, " ")
	})
	hasBreak := strings.ContainsAny(cs, "\r\n")
	hasUnread := false
	for _, op := range ops {
		if op == "u" || op[0] == 'm' {
			hasUnread = true
		}
	}
	c.record(opLine, hasBreak && hasUnread)
	if hasBreak {
		c.count("content:has-linebreak")
	} else {
		c.count("content:no-linebreak")
	}
	c.count(fmt.Sprintf("content-len:%d", min(len(content), 8)))
	if strings.HasPrefix(impl, "panic:") {
		c.fail(Failure{Kind: "oracle", Op: opLine, Impl: impl, Note: "scanner panicked"})
		return
	}
	if oracle != "" {
		c.fail(Failure{Kind: "oracle", Op: opLine, Impl: impl, Note: oracle})
	}
	c.model(opLine, impl, "model")
}

func scanSpecCase(c *Ctx, content []rune) {
	cs := string(content)
	var parts []string
	for k := 0; k <= len(content)+1; k++ {
		l, col := freshLC(cs, k)
		parts = append(parts, fmt.Sprintf("%d/%d", l, col))
	}
	op := "scanspec " + runesStr(content)
	c.record(op, strings.ContainsAny(cs, "\r\n"))
	c.model(op, strings.Join(parts, " "), "model")
}

func enumStrings(alpha []rune, maxLen int, f func([]rune)) {
	var rec func(cur []rune)
	rec = func(cur []rune) {
		f(cur)
		if len(cur) == maxLen {
			return
		}
		for _, a := range alpha {
			rec(append(cur, a))
		}
	}
	rec(nil)
}

func enumSeqExact(alpha []string, n int, f func([]string)) {
	cur := make([]string, n)
	var rec func(i int)
	rec = func(i int) {
		if i == n {
			f(cur)
			return
		}
		for _, a := range alpha {
			cur[i] = a
			rec(i + 1)
		}
	}
	rec(0)
}

func propC11(c *Ctx) {
	propScaleScanner(c)
	alpha := []rune{'x', '\n', '\r'}
	opAlpha := []string{"r", "u", "m2", "x"}
	maxC, nOps := 4, 6
	if c.Thorough {
		maxC, nOps = 5, 7
	}
	// exhaustive small scope (every prefix of an op sequence is observed, so exact length suffices)
	enumStrings(alpha, maxC, func(content []rune) {
		cc := append([]rune(nil), content...)
		scanSpecCase(c, cc)
		enumSeqExact(opAlpha, nOps, func(ops []string) {
			runScanCase(c, cc, append([]string(nil), ops...))
		})
	})
	c.Notes = append(c.Notes, fmt.Sprintf("exhaustive: all contents of length <= %d over {x,LF,CR} x all op sequences of length %d over {read,unread,unreadMany(2),reset} (every prefix observed)", maxC, nOps))
	// random longer ones, all seven operations, wider alphabet
	nRand := 3000
	if c.Thorough {
		nRand = 60000
	}
	// characters whose low 16 (or 8) bits are those of LF / CR are ordinary characters
	look := []rune{'x', 0x1000a, 0x2000d, '\n', '\r', 0x10a, 0x20d, 0x10000a}
	enumStrings(look, 3, func(content []rune) {
		cc := append([]rune(nil), content...)
		scanSpecCase(c, cc)
		for _, ops := range [][]string{{"r", "r", "r", "r", "u", "u", "u", "r"}, {"r", "u", "r", "r", "u", "r", "r", "m2", "r"}, {"r", "r", "m2", "r", "r", "r", "u"}} {
			runScanCase(c, cc, ops)
		}
	})
	wide := []rune{'x', 'y', '\n', '\r', '\n', '\r', 0xe9, 0x4e16, 0x1f600, ' ', 0x1000a, 0x2000d, 0x10000d, 0x20a}
	allOps := []string{"r", "r", "r", "u", "m2", "m3", "p", "l", "c", "x"}
	for i := 0; i < nRand; i++ {
		n := c.Rng.Intn(40)
		content := make([]rune, n)
		for j := range content {
			content[j] = wide[c.Rng.Intn(len(wide))]
		}
		k := 1 + c.Rng.Intn(60)
		ops := make([]string, k)
		for j := range ops {
			ops[j] = allOps[c.Rng.Intn(len(allOps))]
			if ops[j] == "x" && c.Rng.Intn(4) != 0 {
				ops[j] = "r"
			}
		}
		scanSpecCase(c, content)
		runScanCase(c, content, ops)
	}
	// longer contents with sparse line breaks and long multi-unreads
	sparse := []rune{'x', 'y', 'x', 'y', 'x', 'y', 'x', 'y', 'x', 'y', 'x', 'y', '\n', '\r', 0xe9, ' '}
	for i := 0; i < nRand/10; i++ {
		n := 30 + c.Rng.Intn(120)
		content := make([]rune, n)
		for j := range content {
			content[j] = sparse[c.Rng.Intn(len(sparse))]
		}
		var ops []string
		for j := 0; j < n+c.Rng.Intn(3); j++ {
			ops = append(ops, "r")
		}
		for j := 0; j < 4; j++ {
			k := 20 + c.Rng.Intn(60)
			ops = append(ops, fmt.Sprintf("m%d", k), "p")
			for q := c.Rng.Intn(k + 4); q > 0; q-- {
				ops = append(ops, "r")
			}
		}
		runScanCase(c, content, ops)
	}
}

func replayC11(c *Ctx, op string) {
	f := strings.Fields(op)
	if len(f) < 2 {
		return
	}
	if f[0] == "scanblock" {
		propScanBlocks(c)
		return
	}
	if f[0] == "scanhuge" {
		var n int
		fmt.Sscanf(f[1], "%d", &n)
		propScanHuge(c, n)
		return
	}
	if f[0] == "scanspec" {
		scanSpecCase(c, parseRunes(f[1]))
		return
	}
	runScanCase(c, parseRunes(f[1]), f[2:])
}

func init() {
	props["C11"] = propC11
	replays["C11"] = replayC11
}
