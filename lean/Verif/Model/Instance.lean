/-
Model of re-using one tokenizer instance (AbstractTokenizer.SetReader + TokenizeBuffer on an
instance that has processed something before) and of drivers that query HasNextToken an
arbitrary number of times before each NextToken.  Used by C05.
-/
import Verif.Model.Tokenizer

namespace Verif

/-- AbstractTokenizer.SetReader (+ the mode reset of MustacheTokenizer on every SetReader, recognised by the input counter
`ReaderVersion`, also when the same scanner object is assigned again: D34):
    every mutable field is reset; nothing of the previous state survives -/
def TState.setReader (_old : TState) (content : List Rune) : TState := TState.start content

/-- TokenizeBuffer on an instance in an arbitrary earlier state -/
def tokenizeOn (cfg : Cfg) (o : Opts) (old : TState) (content : List Rune) : List Tok :=
  drain cfg o (content.length + 3) (old.setReader content)

/-- `k` consecutive HasNextToken calls (the Boolean answers are discarded, the state is kept) -/
def hasNextN (cfg : Cfg) (o : Opts) : Nat → TState → TState
  | 0, st => st
  | k+1, st => hasNextN cfg o k (hasNext cfg o st).2

/-- a driver that calls HasNextToken `ks[i]` times before the i-th NextToken (0 times once the
pattern is exhausted); fuel on the second argument; stops when NextToken returns nil -/
def drainH (cfg : Cfg) (o : Opts) : List Nat → Nat → TState → List Tok
  | _, 0, _ => []
  | ks, f+1, st =>
    match (nextTok cfg o (hasNextN cfg o (ks.headD 0) st)).1 with
    | none => []
    | some t => t :: drainH cfg o ks.tail f (nextTok cfg o (hasNextN cfg o (ks.headD 0) st)).2

end Verif
