/-
C11 / C12, a clause the streams test at 2^24+1 lines and the model settles for every length: line numbers (and columns)
are natural numbers that count - there is no width at which they wrap.
-/
import Verif.Props.C11
namespace Verif

theorem slot_replicate_lf (n k : Nat) (h1 : 1 ≤ k) (h2 : k ≤ n) : slot (List.replicate n LF) k = some LF := by
  unfold slot
  have : k ≠ 0 := by omega
  simp only [this, if_false]
  rw [List.getElem?_replicate]
  have : k - 1 < n := by omega
  simp [this]

/-- after k line feeds the scanner is on line k+1, column 0 - for EVERY k (no width at which the count wraps) -/
theorem lcUpTo_linefeeds (n k : Nat) (h : k ≤ n) : lcUpTo (List.replicate n LF) k = (k + 1, 0) := by
  induction k with
  | zero => rfl
  | succ j ih =>
    have hj : j ≤ n := by omega
    unfold lcUpTo
    have hlen : j + 1 ≤ (List.replicate n LF).length := by simpa using h
    simp only [hlen, if_true, ih hj]
    unfold stepLC
    have hs : slot (List.replicate n LF) (j + 1) = some LF := slot_replicate_lf n (j+1) (by omega) h
    rw [hs]
    simp [isLine, isColumn, LF, CR]

/-- … in particular on line 16 777 218 after 2^24 + 1 line feeds (C12-R) -/
theorem lines_beyond_24_bits :
    lcUpTo (List.replicate (2 ^ 24 + 1) LF) (2 ^ 24 + 1) = (2 ^ 24 + 2, 0) :=
  lcUpTo_linefeeds _ _ (Nat.le_refl _)

theorem slot_replicate_x (n k : Nat) (x : Rune) (h1 : 1 ≤ k) (h2 : k ≤ n) : slot (List.replicate n x) k = some x := by
  unfold slot
  have : k ≠ 0 := by omega
  simp only [this, if_false]
  rw [List.getElem?_replicate]
  have : k - 1 < n := by omega
  simp [this]

/-- after k characters that are no line breaks the scanner is on line 1, column k - for EVERY k (no 16-bit column) -/
theorem lcUpTo_one_line (n k : Nat) (x : Rune) (hx : x ≠ LF ∧ x ≠ CR) (h : k ≤ n) :
    lcUpTo (List.replicate n x) k = (1, k) := by
  induction k with
  | zero => rfl
  | succ j ih =>
    have hj : j ≤ n := by omega
    unfold lcUpTo
    have hlen : j + 1 ≤ (List.replicate n x).length := by simpa using h
    simp only [hlen, if_true, ih hj]
    unfold stepLC
    rw [slot_replicate_x n (j+1) x (by omega) h]
    have h1 : (some x != some LF) = true := by simp [hx.1]
    have h2 : (some x != some CR) = true := by simp [hx.2]
    simp [isLine, isColumn, h1, h2, hx.1, hx.2]

theorem columns_beyond_16_bits : lcUpTo (List.replicate 72000 120) 72000 = (1, 72000) :=
  lcUpTo_one_line _ _ 120 (by decide) (Nat.le_refl _)

end Verif
