/-
Value model of variants/Variant.go for C20: a variant IS its (deep) value; constructing from a
host value, typed setters/accessors, own copies of lists, growth with nulls, Assign / Clone,
Equals.  After the `fix:` repairs (D26 array equality, D27 shared array payload).

Being a value model, aliasing cannot even be expressed in it: that the implementation shows no
aliasing (beyond element pointers handed out by GetByIndex, which the streams do not mutate) is
exactly what the correspondence run checks.
-/
import Verif.Model.Value

namespace Verif

/-- the host (Go) types `NewVariant` / `SetAsObject` distinguishes -/
inductive HostVal where
  | int (v : Int64) | int32 (v : Int64) | uint (v : Nat) | uint32 (v : Nat) | int64 (v : Int64)
  | float32 (v : Float32) | float64 (v : Float) | bool (v : Bool) | string (v : List Rune)
  | time (sec : Int) (nsec : Nat) | duration (ns : Int64) | list (vs : List V)
  | variant (v : V) | nil | other (id : Nat)

/-- `SetAsObject`: the host-type table -/
def ofHost : HostVal → V
  | .int v => .int v
  | .int32 v => .int v
  | .uint v => .long (Int64.ofNat v)
  | .uint32 v => .long (Int64.ofNat v)
  | .int64 v => .long v
  | .float32 v => .float v
  | .float64 v => .double v
  | .bool v => .bool v
  | .string v => .str v
  | .time s n => .dateTime s n
  | .duration ns => .timeSpan ns
  | .list vs => .array vs
  | .variant v => v
  | .nil => .null
  | .other id => .object id

/-- `SetLength`: grow with nulls (never shrinks); `none` = Go panics (not an array) -/
def setLength (v : V) (n : Nat) : Option V :=
  match v with
  | .array es => some (.array (es ++ List.replicate (n - es.length) .null))
  | _ => none

/-- `SetByIndex`: grow with nulls up to the index, then store; `none` = Go panics -/
def setByIndex (v : V) (i : Int) (e : V) : Option V :=
  match v with
  | .array es =>
    if i < 0 then none
    else
      let k := i.toNat
      let es' := es ++ List.replicate (k + 1 - es.length) .null
      some (.array (es'.set k e))
  | _ => none

/-- `GetByIndex`; `none` = Go panics (not an array, or index not accessible) -/
def getByIndex (v : V) (i : Int) : Option V :=
  match v with
  | .array es => if i < 0 then none else es[i.toNat]?
  | _ => none

def vLength (v : V) : Nat :=
  match v with
  | .array es => es.length
  | _ => 0

mutual
/-- `Equals` (repaired): Null only equals Null, types must agree, arrays element by element,
floats by IEEE `==` (NaN equals nothing; the bit-level `fEq32` / `fEq` of `FloatCmp.lean`) -/
def veq : V → V → Bool
  | .null, .null => true
  | .int a, .int b => a == b
  | .long a, .long b => a == b
  | .float a, .float b => fEq32 a b
  | .double a, .double b => fEq a b
  | .str a, .str b => a == b
  | .bool a, .bool b => a == b
  | .dateTime s1 n1, .dateTime s2 n2 => s1 == s2 && n1 == n2
  | .timeSpan a, .timeSpan b => a == b
  | .object a, .object b => a == b
  | .array as, .array bs => veqList as bs
  | _, _ => false
def veqList : List V → List V → Bool
  | [], [] => true
  | a :: as, b :: bs => veq a b && veqList as bs
  | _, _ => false
end

mutual
/-- no float/double at all inside (a coarse sufficient condition for `noNaN`) -/
def noFloat : V → Bool
  | .float _ => false
  | .double _ => false
  | .array es => noFloatList es
  | .host _ _ => false
  | _ => true
def noFloatList : List V → Bool
  | [] => true
  | e :: es => noFloat e && noFloatList es
end

mutual
/-- no floating-point NaN (and no host-dependent value) inside; decided on the bit patterns -/
def noNaN : V → Bool
  | .float x => !fIsNaN32 x
  | .double x => !fIsNaN x
  | .array es => noNaNList es
  | .host _ _ => false
  | _ => true
def noNaNList : List V → Bool
  | [] => true
  | e :: es => noNaN e && noNaNList es
end

end Verif
