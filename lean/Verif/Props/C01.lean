/-
C01 — the calculator's result equals the value of the expression's syntax tree evaluated directly:
every node applies its variant operation to its operands in written order, function calls receive
exactly their written arguments in order, redundant parentheses never change the result.

Model: `run` / `evaluate` (Verif/Model/ExprEval.lean, the RPN stack machine).
Spec : `Expr.evalTree` / `Expr.evalArgs` (Verif/Spec/ExprGrammar.lean, no stack).

Side conditions
* `hargc : ∀ n, env.asArgc (env.ofArgc n) = some n` — the argument count the parser pushes in front
  of a Function token is read back as that integer;
* `Expr.opsOk t` — every `bin` node carries one of the parser's binary operator tokens
  (`ops0 ∪ ops2 ∪ ops3 ∪ ops4 ∪ ops5`); implied by `Expr.wl t` (`C01_wl_opsOk`).  Without it the
  statement is false (`C01_opsOk_needed`): `evalTree` answers INTERNAL for every `bin op` with
  `op ∉ binaryTypes`, the stack machine treats `tk op` for `op ∈ unaryTypes ∪ {constant, variable,
  function}` as a unary operation / operand.
-/
import Verif.Lemmas.EvalCorrect
import Verif.Props.C01Lit

namespace Verif
open Expr

variable {κ V : Type}

/-! ### 1. `popN` -/

/-- popping `vs.length` values from a stack that holds `vs` with the last one on top gives back
`vs` in written order and the untouched rest of the stack -/
theorem C01_popN (vs st : List V) :
    popN vs.length (vs.reverse ++ st) [] = some (vs, st) :=
  popN_reverse vs st

/-! ### 2. compiler correctness -/

/-- the post-order of `t`, run in front of any continuation `k` on any stack `st`, pushes exactly
the value of the tree (or stops with the tree's error) -/
theorem run_postorder (env : EvalEnv κ V) (hargc : ∀ n, env.asArgc (env.ofArgc n) = some n)
    (t : Expr κ) (ht : opsOk t = true) (k : List (ETok κ)) (st : List V) :
    run env (t.postorder ++ k) st =
      match Expr.evalTree env t with
      | .ok v => run env k (v :: st)
      | .err c => .err c
      | .panic s => .panic s := by
  rw [run_postorder_bind env hargc t ht k st]
  cases Expr.evalTree env t <;> rfl

/-- the post-order of an argument list pushes the argument values in written order -/
theorem run_postorderArgs (env : EvalEnv κ V) (hargc : ∀ n, env.asArgc (env.ofArgc n) = some n)
    (a : Args κ) (ha : opsOkArgs a = true) (k : List (ETok κ)) (st : List V) :
    run env (postorderArgs a ++ k) st =
      match Expr.evalArgs env a with
      | .ok vs => run env k (vs.reverse ++ st)
      | .err c => .err c
      | .panic s => .panic s := by
  rw [run_postorderArgs_bind env hargc a ha k st]
  cases Expr.evalArgs env a <;> rfl

/-- a well-levelled tree (what the parser recognises) satisfies `opsOk` -/
theorem C01_wl_opsOk (t : Expr κ) (h : Expr.wl t = true) : opsOk t = true := wl_opsOk t h

/-- the operators the parser can put into a `bin` node: all are binary evaluator operations except
LIKE, which has no evaluator operation (INTERNAL in the stack machine and in the tree) -/
theorem C01_parser_ops (op : ET) (h : Expr.opLevel op ≠ none) :
    binaryTypes.contains op = true ∨
      (op = .like ∧ binaryTypes.contains op = false ∧ unaryTypes.contains op = false) := by
  rcases opLevel_binary_or_like op h with hb | rfl
  · exact .inl hb
  · exact .inr ⟨rfl, by decide, by decide⟩

/-! ### 3. the property theorems -/

/-- **C01**: the calculator's result on the compiled program is the value of the syntax tree -/
theorem C01_calc_eq_tree (env : EvalEnv κ V) (hargc : ∀ n, env.asArgc (env.ofArgc n) = some n)
    (t : Expr κ) (ht : opsOk t = true) :
    evaluate env t.postorder = Expr.evalTree env t := by
  have h := run_postorder_bind env hargc t ht [] []
  rw [List.append_nil] at h
  rw [evaluate, h]
  cases Expr.evalTree env t <;> rfl

/-- the same for well-levelled trees (the image of the parser) -/
theorem C01_calc_eq_tree_wl (env : EvalEnv κ V) (hargc : ∀ n, env.asArgc (env.ofArgc n) = some n)
    (t : Expr κ) (ht : Expr.wl t = true) :
    evaluate env t.postorder = Expr.evalTree env t :=
  C01_calc_eq_tree env hargc t (wl_opsOk t ht)

/-- redundant parentheses never change the result -/
theorem C01_parens_irrelevant (env : EvalEnv κ V) (t : Expr κ) :
    Expr.evalTree env (.paren t) = Expr.evalTree env t := by
  simp only [evalTree]

/-- … nor do they change the compiled program -/
theorem C01_parens_same_program (t : Expr κ) : (Expr.paren t).postorder = t.postorder := by
  simp only [postorder]

/-- unary plus is the identity -/
theorem C01_unary_plus_irrelevant (env : EvalEnv κ V) (t : Expr κ) :
    Expr.evalTree env (.pos t) = Expr.evalTree env t := by
  simp only [evalTree]

/-- a binary node: left operand first, then the right one, then the node's variant operation on
`(left, right)` in written order -/
theorem C01_operand_order (env : EvalEnv κ V) (op : ET) (l r : Expr κ) :
    Expr.evalTree env (.bin op l r) =
      (Expr.evalTree env l).bind fun v => (Expr.evalTree env r).bind fun w =>
        if binaryTypes.contains op then env.binop op v w else .err "INTERNAL" := by
  simp only [evalTree]

/-- for the operators with an evaluator operation -/
theorem C01_operand_order_binary (env : EvalEnv κ V) (op : ET) (hop : binaryTypes.contains op = true)
    (l r : Expr κ) :
    Expr.evalTree env (.bin op l r) =
      (Expr.evalTree env l).bind fun v => (Expr.evalTree env r).bind fun w => env.binop op v w := by
  simp only [evalTree, hop, if_true]

/-- the index suffix and NOT IN are binary nodes of the same shape -/
theorem C01_operand_order_index (env : EvalEnv κ V) (e i : Expr κ) :
    Expr.evalTree env (.index e i) =
      (Expr.evalTree env e).bind fun v => (Expr.evalTree env i).bind fun w =>
        env.binop .element v w := by
  simp only [evalTree]

theorem C01_operand_order_notIn (env : EvalEnv κ V) (l r : Expr κ) :
    Expr.evalTree env (.notIn l r) =
      (Expr.evalTree env l).bind fun v => (Expr.evalTree env r).bind fun w =>
        env.binop .notIn v w := by
  simp only [evalTree]

/-- the written arguments of a call, as a list -/
def Args.toList : Args κ → List (Expr κ)
  | .nil => []
  | .cons e rest => e :: Args.toList rest

theorem evalArgs_eq_evalList (env : EvalEnv κ V) :
    ∀ a : Args κ, Expr.evalArgs env a = Expr.evalList (Expr.evalTree env) (Args.toList a)
  | .nil => by simp only [evalArgs, Args.toList, evalList]
  | .cons e rest => by
    simp only [evalArgs, Args.toList, evalList, evalArgs_eq_evalList env rest]

/-- a call evaluates its written arguments left to right and hands the function exactly these
values, in written order -/
theorem C01_call_args_in_order (env : EvalEnv κ V) (n : List Rune) (args : Args κ) :
    Expr.evalTree env (.call n args) =
      (Expr.evalList (Expr.evalTree env) (Args.toList args)).bind fun vs =>
        if env.hasFn n then env.callFn n vs else .err "FUNC_NOT_FOUND" := by
  simp only [evalTree, evalArgs_eq_evalList]

/-- the two-argument instance, spelled out -/
theorem C01_call_args_in_order₂ (env : EvalEnv κ V) (n : List Rune) (a b : Expr κ) :
    Expr.evalTree env (.call n (.cons a (.cons b .nil))) =
      (Expr.evalTree env a).bind fun v => (Expr.evalTree env b).bind fun w =>
        if env.hasFn n then env.callFn n [v, w] else .err "FUNC_NOT_FOUND" := by
  simp only [evalTree, evalArgs, Out.bind_assoc, Out.bind_ok]

/-- the value list has one value per written argument -/
theorem C01_call_args_count (env : EvalEnv κ V) (args : Args κ) (vs : List V)
    (h : Expr.evalArgs env args = .ok vs) : vs.length = Expr.argsLength args :=
  evalArgs_length env args vs h

/-! #### associativity and precedence -/

/-- a chain `a op' b op c` printed without parentheses has the same token string under both
nestings … -/
theorem C01_chain_same_tokens (op op' : ET) (a b c : Expr κ) :
    Expr.unparse (.bin op (.bin op' a b) c) = Expr.unparse (.bin op' a (.bin op b c)) := by
  simp only [unparse, List.append_assoc]

/-- the binary operators live on levels 0, 2, 3, 4, 5 -/
theorem opLevel_cases (op : ET) (k : Nat) (h : Expr.opLevel op = some k) :
    k = 0 ∨ k = 2 ∨ k = 3 ∨ k = 4 ∨ k = 5 := by
  have key : Expr.opLevel op = none ∨ Expr.opLevel op = some 0 ∨ Expr.opLevel op = some 2 ∨
      Expr.opLevel op = some 3 ∨ Expr.opLevel op = some 4 ∨ Expr.opLevel op = some 5 := by
    cases op <;> decide
  rw [h] at key
  rcases key with e | e | e | e | e | e
  · cases e
  · exact .inl (Option.some.inj e)
  · exact .inr (.inl (Option.some.inj e))
  · exact .inr (.inr (.inl (Option.some.inj e)))
  · exact .inr (.inr (.inr (.inl (Option.some.inj e))))
  · exact .inr (.inr (.inr (.inr (Option.some.inj e))))

theorem lvl_bin (op : ET) (l r : Expr κ) : Expr.lvl (.bin op l r) = (Expr.opLevel op).getD 0 := rfl

theorem lvl_bin_some (op : ET) (l r : Expr κ) (k : Nat) (h : Expr.opLevel op = some k) :
    Expr.lvl (.bin op l r) = k := by
  rw [lvl_bin, h]; rfl

theorem lvl_paren (e : Expr κ) : Expr.lvl (.paren e) = 8 := rfl

/-- the level discipline of a binary node: left operand at or above the operator's level, right
operand strictly above it -/
theorem wl_bin_some (op : ET) (l r : Expr κ) (k : Nat) (h : Expr.opLevel op = some k) :
    Expr.wl (.bin op l r) =
      (Expr.wl l && Expr.wl r && decide (Expr.lvl l ≥ k) && decide (Expr.lvl r ≥ k + 1)) := by
  simp only [wl, h]

/-- … the left nesting is well-levelled when both operators sit on the same level … -/
theorem C01_left_assoc (op op' : ET) (k : Nat) (a b c : Expr κ)
    (h : Expr.opLevel op = some k) (h' : Expr.opLevel op' = some k)
    (ha : Expr.wl a = true) (hb : Expr.wl b = true) (hc : Expr.wl c = true)
    (la : Expr.lvl a ≥ k) (lb : Expr.lvl b ≥ k + 1) (lc : Expr.lvl c ≥ k + 1) :
    Expr.wl (.bin op (.bin op' a b) c) = true := by
  have lk : k ≥ k := Nat.le_refl k
  rw [wl_bin_some op _ _ k h, wl_bin_some op' _ _ k h', lvl_bin_some op' a b k h', ha, hb, hc,
    decide_eq_true la, decide_eq_true lb, decide_eq_true lc, decide_eq_true lk]
  rfl

/-- … and the right nesting never is: a right operand must sit strictly above the operator's level,
so it needs parentheses -/
theorem C01_right_nesting_needs_parens (op op' : ET) (k : Nat) (a b c : Expr κ)
    (h : Expr.opLevel op = some k) (h' : Expr.opLevel op' = some k) :
    Expr.wl (.bin op a (.bin op' b c)) = false := by
  have hk : ¬ (k ≥ k + 1) := Nat.not_succ_le_self k
  rw [wl_bin_some op _ _ k h, lvl_bin_some op' b c k h', decide_eq_false hk, Bool.and_false]

/-- with parentheses the right nesting is well-levelled again -/
theorem C01_right_nesting_with_parens (op op' : ET) (k : Nat) (a b c : Expr κ)
    (h : Expr.opLevel op = some k)
    (ha : Expr.wl a = true) (la : Expr.lvl a ≥ k)
    (hr : Expr.wl (.bin op' b c) = true) :
    Expr.wl (.bin op a (.paren (.bin op' b c))) = true := by
  have hr' : Expr.wl (.paren (.bin op' b c)) = true := by
    rw [show Expr.wl (.paren (.bin op' b c)) = Expr.wl (.bin op' b c) by simp only [wl]]
    exact hr
  have hk : k + 1 ≤ 8 := by
    rcases opLevel_cases op k h with rfl | rfl | rfl | rfl | rfl <;> decide
  have hk' : 8 ≥ k + 1 := hk
  rw [wl_bin_some op _ _ k h, lvl_paren, ha, hr', decide_eq_true la, decide_eq_true hk']
  rfl

/-- a tighter operator in the right operand needs no parentheses, a looser or equal one does -/
theorem C01_precedence_right (op op' : ET) (k k' : Nat) (a b c : Expr κ)
    (h : Expr.opLevel op = some k) (h' : Expr.opLevel op' = some k')
    (ha : Expr.wl a = true) (la : Expr.lvl a ≥ k) (hr : Expr.wl (.bin op' b c) = true) :
    Expr.wl (.bin op a (.bin op' b c)) = decide (k < k') := by
  rw [wl_bin_some op _ _ k h, lvl_bin_some op' b c k' h', ha, hr, decide_eq_true la]
  rfl

/-- the precedence table: the level of every operator token, the levels of the other node kinds,
and the pairwise disjointness of the five operator sets -/
theorem C01_precedence_table :
    -- the five sets
    Parser.ops0 = [.and, .or, .xor] ∧
    Parser.ops2 = [.equal, .notEqual, .more, .less, .equalMore, .equalLess] ∧
    Parser.ops3 = [.plus, .minus, .like] ∧
    Parser.ops4 = [.star, .slash, .procent] ∧
    Parser.ops5 = [.power, .in_, .shiftLeft, .shiftRight] ∧
    -- their levels
    (∀ op, Expr.opLevel op = some 0 ↔ op ∈ Parser.ops0) ∧
    (∀ op, Expr.opLevel op = some 2 ↔ op ∈ Parser.ops2) ∧
    (∀ op, Expr.opLevel op = some 3 ↔ op ∈ Parser.ops3) ∧
    (∀ op, Expr.opLevel op = some 4 ↔ op ∈ Parser.ops4) ∧
    (∀ op, Expr.opLevel op = some 5 ↔ op ∈ Parser.ops5) ∧
    (∀ op, Expr.opLevel op = none ↔
      op ∉ Parser.ops0 ++ Parser.ops2 ++ Parser.ops3 ++ Parser.ops4 ++ Parser.ops5) ∧
    (∀ op k, Expr.opLevel op = some k → k = 0 ∨ k = 2 ∨ k = 3 ∨ k = 4 ∨ k = 5) ∧
    -- pairwise disjoint (no token occurs twice in the concatenation)
    (Parser.ops0 ++ Parser.ops2 ++ Parser.ops3 ++ Parser.ops4 ++ Parser.ops5).Nodup ∧
    -- the other node kinds
    (∀ l r : Expr κ, Expr.lvl (.notLike l r) = 3) ∧
    (∀ l r : Expr κ, Expr.lvl (.notIn l r) = 3) ∧
    (∀ e : Expr κ, Expr.lvl (.isNull e) = 3) ∧
    (∀ e : Expr κ, Expr.lvl (.isNotNull e) = 3) ∧
    (∀ e : Expr κ, Expr.lvl (.not e) = 1) ∧
    (∀ e i : Expr κ, Expr.lvl (.index e i) = 6) ∧
    (∀ e : Expr κ, Expr.lvl (.neg e) = 7) ∧
    (∀ e : Expr κ, Expr.lvl (.pos e) = 7) ∧
    (∀ e : Expr κ, Expr.lvl (.paren e) = 8) ∧
    (∀ op (l r : Expr κ) k, Expr.opLevel op = some k → Expr.lvl (.bin op l r) = k) := by
  refine ⟨rfl, rfl, rfl, rfl, rfl, ?_, ?_, ?_, ?_, ?_, ?_, ?_, by decide,
    fun _ _ => rfl, fun _ _ => rfl, fun _ => rfl, fun _ => rfl, fun _ => rfl, fun _ _ => rfl,
    fun _ => rfl, fun _ => rfl, fun _ => rfl, ?_⟩
  · intro op; cases op <;> decide
  · intro op; cases op <;> decide
  · intro op; cases op <;> decide
  · intro op; cases op <;> decide
  · intro op; cases op <;> decide
  · intro op; cases op <;> decide
  · exact opLevel_cases
  · intro op l r k h
    simp only [lvl, h, Option.getD_some]

/-! #### no stack underflow on compiled programs -/

theorem Out.ok_ne_panic {α : Type} (v : α) (s : String) : Out.ok v ≠ .panic s :=
  fun h => by cases h

theorem Out.err_ne_panic {α : Type} (c s : String) : (Out.err c : Out α) ≠ .panic s :=
  fun h => by cases h

theorem Out.bind_ne_panic {α β : Type} {o : Out α} {f : α → Out β} {s : String}
    (ho : o ≠ .panic s) (hf : ∀ a, f a ≠ .panic s) : o.bind f ≠ .panic s := by
  cases o with
  | ok v => exact hf v
  | err c => exact Out.err_ne_panic c s
  | panic s' =>
    intro h
    rw [Out.bind_panic] at h
    cases h
    exact ho rfl

mutual
/-- the tree evaluator has no stack: it panics only if an operation / function does -/
theorem evalTree_no_panic (env : EvalEnv κ V)
    (hf : ∀ name args s, env.callFn name args ≠ .panic s)
    (hb : ∀ op v w s, env.binop op v w ≠ .panic s)
    (hu : ∀ op v s, env.unop op v ≠ .panic s) (s : String) :
    ∀ t : Expr κ, Expr.evalTree env t ≠ .panic s
  | .const _ => by simp only [evalTree]; exact Out.ok_ne_panic _ s
  | .var n => by
    simp only [evalTree]
    split
    · exact Out.ok_ne_panic _ s
    · exact Out.err_ne_panic _ s
  | .paren e => by simp only [evalTree]; exact evalTree_no_panic env hf hb hu s e
  | .pos e => by simp only [evalTree]; exact evalTree_no_panic env hf hb hu s e
  | .call n args => by
    simp only [evalTree]
    refine Out.bind_ne_panic (evalArgs_no_panic env hf hb hu s args) fun vs => ?_
    split
    · exact hf n vs s
    · exact Out.err_ne_panic _ s
  | .neg e => by
    simp only [evalTree]
    exact Out.bind_ne_panic (evalTree_no_panic env hf hb hu s e) fun v => hu _ v s
  | .not e => by
    simp only [evalTree]
    exact Out.bind_ne_panic (evalTree_no_panic env hf hb hu s e) fun v => hu _ v s
  | .isNull e => by
    simp only [evalTree]
    exact Out.bind_ne_panic (evalTree_no_panic env hf hb hu s e) fun v => hu _ v s
  | .isNotNull e => by
    simp only [evalTree]
    exact Out.bind_ne_panic (evalTree_no_panic env hf hb hu s e) fun v => hu _ v s
  | .index e i => by
    simp only [evalTree]
    exact Out.bind_ne_panic (evalTree_no_panic env hf hb hu s e) fun v =>
      Out.bind_ne_panic (evalTree_no_panic env hf hb hu s i) fun w => hb _ v w s
  | .notIn l r => by
    simp only [evalTree]
    exact Out.bind_ne_panic (evalTree_no_panic env hf hb hu s l) fun v =>
      Out.bind_ne_panic (evalTree_no_panic env hf hb hu s r) fun w => hb _ v w s
  | .notLike l r => by
    simp only [evalTree]
    exact Out.bind_ne_panic (evalTree_no_panic env hf hb hu s l) fun _ =>
      Out.bind_ne_panic (evalTree_no_panic env hf hb hu s r) fun _ => Out.err_ne_panic _ s
  | .bin op l r => by
    simp only [evalTree]
    refine Out.bind_ne_panic (evalTree_no_panic env hf hb hu s l) fun v =>
      Out.bind_ne_panic (evalTree_no_panic env hf hb hu s r) fun w => ?_
    split
    · exact hb op v w s
    · exact Out.err_ne_panic _ s
theorem evalArgs_no_panic (env : EvalEnv κ V)
    (hf : ∀ name args s, env.callFn name args ≠ .panic s)
    (hb : ∀ op v w s, env.binop op v w ≠ .panic s)
    (hu : ∀ op v s, env.unop op v ≠ .panic s) (s : String) :
    ∀ a : Args κ, Expr.evalArgs env a ≠ .panic s
  | .nil => by simp only [evalArgs]; exact Out.ok_ne_panic _ s
  | .cons e rest => by
    simp only [evalArgs]
    exact Out.bind_ne_panic (evalTree_no_panic env hf hb hu s e) fun v =>
      Out.bind_ne_panic (evalArgs_no_panic env hf hb hu s rest) fun vs => Out.ok_ne_panic _ s
end

/-- on a compiled program the stack machine never hits a Go panic (empty-stack `Pop`, non-integer
argument count) unless a variant operation / function itself panics -/
theorem C01_no_stack_panic (env : EvalEnv κ V)
    (hargc : ∀ n, env.asArgc (env.ofArgc n) = some n) (t : Expr κ) (ht : opsOk t = true)
    (hf : ∀ name args, ∀ s, env.callFn name args ≠ .panic s)
    (hb : ∀ op v w s, env.binop op v w ≠ .panic s)
    (hu : ∀ op v s, env.unop op v ≠ .panic s) :
    ∀ s, evaluate env t.postorder ≠ .panic s := by
  intro s
  rw [C01_calc_eq_tree env hargc t ht]
  exact evalTree_no_panic env hf hb hu s t

/-! ### non-vacuity: a tiny concrete calculator -/

namespace C01Demo

/-- integers with `+ - *`, unary minus, one variable `x = 10` and one function `f(a, b) = a - b` -/
def env : EvalEnv Nat Int where
  ofConst n := Int.ofNat n
  ofArgc n := Int.ofNat n
  asArgc v := match v with
    | .ofNat n => some n
    | .negSucc _ => none
  lookupVar n := if n = [120] then some 10 else none
  hasFn n := n == [102]
  callFn _ args := match args with
    | [a, b] => .ok (a - b)
    | _ => .err "ARGS"
  binop op v w := match op with
    | .plus => .ok (v + w)
    | .minus => .ok (v - w)
    | .star => .ok (v * w)
    | _ => .err "UNSUPPORTED"
  unop op v := match op with
    | .unary => .ok (-v)
    | _ => .err "UNSUPPORTED"

theorem env_hargc : ∀ n, env.asArgc (env.ofArgc n) = some n := fun _ => rfl

/-- `1 - 2 - 3` (left-nested, as the parser builds it) -/
def e1 : Expr Nat := .bin .minus (.bin .minus (.const 1) (.const 2)) (.const 3)
/-- `2 * (3 + 4)` -/
def e2 : Expr Nat := .bin .star (.const 2) (.paren (.bin .plus (.const 3) (.const 4)))
/-- `f(x, 3) - -1` -/
def e3 : Expr Nat :=
  .bin .minus (.call [102] (.cons (.var [120]) (.cons (.const 3) .nil))) (.neg (.const 1))

example : Expr.wl e1 = true ∧ Expr.wl e2 = true ∧ Expr.wl e3 = true := by decide
example : opsOk e1 = true ∧ opsOk e2 = true ∧ opsOk e3 = true := by decide

example : evaluate env e1.postorder = .ok (-4) := by decide
example : Expr.evalTree env e1 = .ok (-4) := by decide
example : evaluate env e2.postorder = .ok 14 := by decide
example : Expr.evalTree env e2 = .ok 14 := by decide
example : evaluate env e3.postorder = .ok 8 := by decide
example : Expr.evalTree env e3 = .ok 8 := by decide

/-- the theorem instantiated -/
example : evaluate env e3.postorder = Expr.evalTree env e3 :=
  C01_calc_eq_tree env env_hargc e3 (by decide)

/-- the right nesting `1 - (2 - 3)` is a different value, and is not well-levelled without the
parentheses -/
example : Expr.evalTree env (.bin .minus (.const 1) (.paren (.bin .minus (.const 2) (.const 3))))
    = .ok 2 := by decide
example : Expr.wl (κ := Nat) (.bin .minus (.const 1) (.bin .minus (.const 2) (.const 3))) = false :=
  by decide

/-- `opsOk` cannot be dropped: a `bin` node labelled with a non-operator token type evaluates
differently in the stack machine and in the tree -/
theorem C01_opsOk_needed :
    evaluate env (Expr.bin .variable (.const 1) (.const 2)).postorder = .err "VAR_NOT_FOUND" ∧
    Expr.evalTree env (Expr.bin .variable (.const 1) (.const 2)) = .err "INTERNAL" ∧
    evaluate env (Expr.bin .unary (.const 1) (.const 2)).postorder = .err "INTERNAL" ∧
    run env ((Expr.bin .unary (.const 1) (.const 2)).postorder ++ [Expr.tk .minus]) [] = .ok 3 ∧
    Expr.evalTree env (Expr.bin .minus (.bin .unary (.const 1) (.const 2)) (.const 0))
      = .err "INTERNAL" := by
  decide

end C01Demo

end Verif
