/-
C06: the operator table (Props/C06.lean) and the arithmetic meaning of the shifts for every non-negative
count, also counts of 64 and more (Props/C06Shift.lean).
-/
import Verif.Props.C06
import Verif.Props.C06Shift
