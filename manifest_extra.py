HOOK_COMMITS = []

_NOTE = ("Trusted: Lean kernel; axioms propext/Classical.choice/Quot.sound only; the Go harness and generators; "
         "the Lean compiler producing the model driver. The model is hand-written and tied to /repo by the "
         "differential run of this check on every invocation (not proved).")

LEVEL = {
    "C11": {
        "text": "Lean theorems over a statement-level model of StringScanner: for every content and every operation history, line/column are a function of the cursor position (= fresh forward scan), read/unread/peek/reset behave as a cursor with one EOF slot, peeked line/column = those after the next read. Model tied to the Go code by exhaustive small-scope + random differential runs and a direct forward-scan oracle.",
        "design_ref": "DESIGN.md 4/C11", "note": _NOTE, "technique": "Lean 4 proof (invariant by induction over operation histories) + model/implementation correspondence check",
    },
    "C17": {
        "text": "Lean theorem C17_lookup_latest: for every registration history and every character the model's Lookup equals the reference of the most recent covering registration after the last Clear; tied to CharReferenceMap by exhaustive histories over the boundary endpoint set and random histories, comparing returned references by identity.",
        "design_ref": "DESIGN.md 4/C17", "note": _NOTE, "technique": "Lean 4 proof (induction over registration histories, refinement to a latest-registration spec) + correspondence check",
    },
}

LEVEL["C14"] = {
    "text": "Lean theorems: decode∘encode = id for every string and quote character for all three quote states, decode is total and shape-preserving on non-literals, and for the expression/CSV states the encoded form placed in a stream is read back as exactly one token that decodes to the original (induction over the string). Tied to the Go quote states by exhaustive small-scope and random differential runs plus a direct round-trip oracle.",
    "design_ref": "DESIGN.md 4/C14", "note": _NOTE, "technique": "Lean 4 proof (round-trip laws by structural induction) + model/implementation correspondence check",
}

LEVEL["C16"] = {
    "text": "Lean theorems over the symbol-trie model: invariant of the table after any registration list, and C16_next_is_longest — for all registration lists (any order, shared prefixes, re-registration) and all inputs the symbol state returns the longest registered prefix (or one character) with the type of its latest registration and consumes exactly that many characters; later registrations never change existing symbols. Tied to SymbolRootNode by exhaustive small-scope and random differential runs with repeated reads.",
    "design_ref": "DESIGN.md 4/C16", "note": _NOTE, "technique": "Lean 4 proof (data-structure invariant by induction over registrations + longest-match characterisation) + correspondence check",
}

_TOKNOTE = _NOTE + " Theorems cover the generic, expression and csv tokenizers (csv for every separator/quote configuration); the mustache tokenizer's override is modelled and checked by correspondence + oracle only."
LEVEL["C04"] = {
    "text": "Lean theorem C04_lossless for every input: token values concatenate to the input, only the final Eof is empty — proved from per-state segment lemmas (every state, incl. fall-back paths and the EOF slot, moves exactly a contiguous slice) and a main-loop induction. Tied to the Go tokenizers by exhaustive class-alphabet strings, lexeme soup and random inputs, compared token by token with the compiled model and with the concatenation oracle.",
    "design_ref": "DESIGN.md 4/C04", "note": _TOKNOTE, "technique": "Lean 4 proof (loop invariants / segment lemmas, induction over the input) + correspondence check",
}
LEVEL["C12"] = {
    "text": "Lean theorem C12_positions for every input and all 128 option sets: each token reports the forward-scan line/column of the first character of a whole raw token, the Eof token one column past the end; built on C11 and the C15 factorisation. Tied to the Go tokenizers by exhaustive multi-line small-scope strings and random inputs x option sets with a position oracle.",
    "design_ref": "DESIGN.md 4/C12", "note": _TOKNOTE, "technique": "Lean 4 proof (position lemmas per state + main-loop factorisation) + correspondence check",
}
LEVEL["C15"] = {
    "text": "Lean theorem C15_options_factor: for all 2^7 option sets and every input the token stream is the option-free segmentation with whole tokens dropped or rewritten (segmentation independent of options), with the per-option postconditions as corollaries. Tied to the Go tokenizers by all strings up to a small length x 128 option sets x 4 tokenizers and random/lexeme-soup inputs, with an oracle that post-processes the implementation's own option-free stream.",
    "design_ref": "DESIGN.md 4/C15", "note": _TOKNOTE, "technique": "Lean 4 proof (factorisation through a raw-segmentation spec, fuel-independence, induction on remaining input) + correspondence check",
}

LEVEL["C01"] = {
    "text": "Lean theorems: compiler correctness of the RPN evaluator (run on post-order = direct tree evaluation, for every tree, environment and variant-operation table), parentheses/unary-plus irrelevance, left associativity, the precedence table; with C02_complete this is calculator = syntax-tree value. Tied to the Go calculator by generated trees in three parenthesisation modes under random typed assignments, the full operator-pair matrix, a Go-side tree evaluator as oracle and the Lean evaluator model run on the implementation's own compiled program.",
    "design_ref": "DESIGN.md 4/C01", "note": _NOTE, "technique": "Lean 4 proof (compiler correctness by mutual structural induction over syntax trees) + correspondence check",
}
LEVEL["C02"] = {
    "text": "Lean theorems: completeness (every sentence of the grammar is accepted and compiled to the post-order of its tree, explicit fuel bound = termination) and soundness (every accepted token sequence is the unparse of a well-levelled tree and the output its post-order) of the 7-level recursive-descent parser model. Tied to the Go parser by exhaustive token-class sequences, generated sentences and token-level mutants, with an independent CFG recogniser as accept/reject oracle.",
    "design_ref": "DESIGN.md 4/C02", "note": _NOTE, "technique": "Lean 4 proof (parser completeness + soundness w.r.t. a tree grammar, fuel monotonicity) + correspondence check",
}

LEVEL["C06"] = {
    "text": "Lean theorems for every operand pair and both managers: never a panic; Null propagation; second operand converted to the first operand's type; the same-type table is the host arithmetic (rfl-facts per operator and type); result types; comparison consistency (string order proved total, integer/date orders via omega); undefined operations are errors; list semantics of IN and indexing. Tied to the Go operators by the full boundary matrix compared bit-exactly with the compiled model plus direct consistency oracles. Partial: order consistency of float <=/>= and the numerical meaning of '^' rest on the host (checked by the stream, not proved).",
    "design_ref": "DESIGN.md 4/C06", "note": _NOTE, "technique": "Lean 4 proof (decision logic stated outright, case analysis over operator x type) + correspondence check",
}
LEVEL["C07"] = {
    "text": "Lean theorems: a successful conversion has the requested type; Object/own type return the value unchanged; the type-safe manager permits exactly the six numeric widenings and agrees with the type-unsafe one; integer<->long, boolean<->integer/long/string, integer/long<->time span (tight range), <->date-time and <->decimal string (all 64-bit values) round-trip. Tied to the Go converters by the full boundary matrix x 11 targets x 2 managers and direct round-trip oracles. Partial: round trips through float/double are host facts (stream only).",
    "design_ref": "DESIGN.md 4/C07", "note": _NOTE, "technique": "Lean 4 proof (case analysis over source x target, decimal print/parse inverse) + correspondence check",
}

NOT_APPLICABLE = {}
