/-
C03 — "For every input string and every assignment of supported values … setting and evaluating
an expression, parsing and rendering a template, and tokenizing with any built-in tokenizer
terminate and return normally.  Each evaluating call yields exactly one of a non-nil result or a
non-nil error — never a panic, never neither, never both."

Reading in the model.  Go panics are explicit results (`Out.panic`, `R.panic`); running out of the
fuel that replaces Go's loops and recursion is explicit (`PErr.outOfFuel`, `MErr.outOfFuel`, a
`none` / short token list for the tokenizer); "neither" and "both" cannot be expressed (results
are sum types).  Termination is by construction (every model function is structurally recursive).
So C03 = "no entry point of the model, called with the fuel the driver uses, returns a panic or
runs out of fuel".  `C03_summary` at the end lists the entry points and the covering theorems.

Helper lemmas: Verif/Lemmas/Totality.lean.
-/
import Verif.Lemmas.Totality
import Verif.Props.C07
import Verif.Props.C14
import Verif.Props.C15

namespace Verif
open Expr

/-! ## 1. setting an expression (syntax analysis) -/

/-- with the driver's fuel the parser gives a definite answer: it accepts, or it rejects with a
proper error code — never "out of fuel" (restates `C02_fuel_suffices`, `C02_reject_has_code`) -/
theorem C03_parse_total {κ : Type} (toks : List (ETok κ)) :
    ∃ r, runParse (16 * (toks.length + 2)) toks = r ∧
      (match r with
       | .ok _ => True
       | .error e => e ≠ .outOfFuel ∧ e.code ≠ "") := by
  refine ⟨_, rfl, ?_⟩
  cases h : runParse (16 * (toks.length + 2)) toks with
  | ok st => trivial
  | error e =>
    have hne : e ≠ .outOfFuel := by
      intro he; subst he
      exact C02_fuel_suffices toks _ (Nat.le_refl _) h
    exact ⟨hne, C02_reject_has_code _ toks e h hne⟩

/-- … and with any larger fuel, with the same answer -/
theorem C03_parse_total_fuel {κ : Type} (toks : List (ETok κ)) (f : Nat)
    (hf : 16 * (toks.length + 2) ≤ f) :
    runParse f toks = runParse (16 * (toks.length + 2)) toks ∧
    runParse f toks ≠ .error .outOfFuel :=
  ⟨runParse_mono toks hf (C02_fuel_suffices toks _ (Nat.le_refl _)), C02_fuel_suffices toks f hf⟩

/-! ## 2. evaluating an expression -/

/-- the argument-count constant the parser emits is read back as the same number, for every count
below `2^63` (`calcEnv` stores it in an `Int64`); the unbounded statement
`∀ n, asArgc (ofArgc n) = some n` that `C01_no_stack_panic` asks for is FALSE for `calcEnv`
(`C03_argc_wraps`) -/
theorem C03_argc_roundtrip (m : Mgr) (dec : String → V) (vars : List (List Rune × V)) (n : Nat)
    (h : n < 2 ^ 63) : (calcEnv m dec vars).asArgc ((calcEnv m dec vars).ofArgc n) = some n :=
  calcEnv_argc m dec vars n h

theorem C03_argc_wraps (m : Mgr) (dec : String → V) (vars : List (List Rune × V)) :
    (calcEnv m dec vars).asArgc ((calcEnv m dec vars).ofArgc (2 ^ 64 + 1)) = some 1 := by
  show (if (Int64.ofNat (2 ^ 64 + 1)).toInt < 0 then some 0
    else some (Int64.ofNat (2 ^ 64 + 1)).toInt.toNat) = some 1
  decide

/-- the tree-level statement: on the compiled program of a tree whose bin nodes carry parser
operators and whose calls have fewer than `2^63` arguments, the calculator with the variant
operations and the default functions never panics, and computes the value of the tree -/
theorem C03_evaluate_tree (m : Mgr) (dec : String → V) (vars : List (List Rune × V))
    (t : Expr String) (ht : opsOk t = true) (hb : argcLt (2 ^ 63) t = true) :
    evaluate (calcEnv m dec vars) t.postorder = evalTree (calcEnv m dec vars) t ∧
    ∀ s, evaluate (calcEnv m dec vars) t.postorder ≠ .panic s :=
  ⟨calc_eq_treeB _ (2 ^ 63) (calcEnv_argc m dec vars) t ht hb,
   no_stack_panicB _ (2 ^ 63) (calcEnv_argc m dec vars) t ht hb
    (calcEnv_callFn_ne_panic m dec vars) (calcEnv_binop_ne_panic m dec vars)
    (calcEnv_unop_ne_panic m dec vars)⟩

/-- **C03, evaluation**: whatever the parser accepts (canonical input tokens, fewer than `2^63`
of them) evaluates without a panic, for every conversion manager, every constant decoder and
every variable assignment.  The bound on the number of tokens bounds the argument counts
(`argcLt_of_length`); no other hypothesis on the values. -/
theorem C03_evaluate_total (f : Nat) (toks : List (ETok String)) (st : PState String)
    (hc : ∀ tok ∈ toks, Sound.Canon tok) (hlen : toks.length < 2 ^ 63)
    (h : runParse f toks = .ok st)
    (m : Mgr) (dec : String → V) (vars : List (List Rune × V)) :
    ∀ s, evaluate (calcEnv m dec vars) st.out ≠ .panic s := by
  obtain ⟨t, hw, hu, ho, _, _⟩ := C02_no_silent_skip f toks st hc h
  rw [ho]
  exact (C03_evaluate_tree m dec vars t (C01_wl_opsOk t hw)
    (argcLt_of_length _ t (by rw [hu]; exact hlen))).2

/-- … and the result is the value of the syntax tree of the input -/
theorem C03_evaluate_eq_tree (f : Nat) (toks : List (ETok String)) (st : PState String)
    (hc : ∀ tok ∈ toks, Sound.Canon tok) (hlen : toks.length < 2 ^ 63)
    (h : runParse f toks = .ok st)
    (m : Mgr) (dec : String → V) (vars : List (List Rune × V)) :
    ∃ t : Expr String, t.wl = true ∧ t.unparse = toks ∧
      evaluate (calcEnv m dec vars) st.out = evalTree (calcEnv m dec vars) t := by
  obtain ⟨t, hw, hu, ho, _, _⟩ := C02_no_silent_skip f toks st hc h
  refine ⟨t, hw, hu, ?_⟩
  rw [ho]
  exact (C03_evaluate_tree m dec vars t (C01_wl_opsOk t hw)
    (argcLt_of_length _ t (by rw [hu]; exact hlen))).1

/-! ## 3. exactly one of result / error -/

/-- **C03**: an evaluation yields a value or an error code (the two are different constructors, so
never both; the result type has no third non-panic alternative, so never neither) -/
theorem C03_evaluate_outcome (f : Nat) (toks : List (ETok String)) (st : PState String)
    (hc : ∀ tok ∈ toks, Sound.Canon tok) (hlen : toks.length < 2 ^ 63)
    (h : runParse f toks = .ok st)
    (m : Mgr) (dec : String → V) (vars : List (List Rune × V)) :
    (∃ v, evaluate (calcEnv m dec vars) st.out = .ok v) ∨
    (∃ c, evaluate (calcEnv m dec vars) st.out = .err c) := by
  cases he : evaluate (calcEnv m dec vars) st.out with
  | ok v => exact .inl ⟨v, rfl⟩
  | err c => exact .inr ⟨c, rfl⟩
  | panic s => exact absurd he (C03_evaluate_total f toks st hc hlen h m dec vars s)

/-- the variant operators never panic, for all operands (restates `C06_never_panics`) -/
theorem C03_ops_total :
    (∀ m op a b s, binop m op a b ≠ .panic s) ∧ (∀ op a s, unop op a ≠ .panic s) :=
  ⟨C06_never_panics.1, C06_never_panics.2.1⟩

/-- the same through the evaluator's operator wrappers (IN / NOT IN with swapped operands, the
index operator, IS NULL / IS NOT NULL) -/
theorem C03_calc_ops_total (m : Mgr) (dec : String → V) (vars : List (List Rune × V)) :
    (∀ op v w s, (calcEnv m dec vars).binop op v w ≠ .panic s) ∧
    (∀ op v s, (calcEnv m dec vars).unop op v ≠ .panic s) ∧
    (∀ name args s, (calcEnv m dec vars).callFn name args ≠ .panic s) :=
  ⟨calcEnv_binop_ne_panic m dec vars, calcEnv_unop_ne_panic m dec vars,
   calcEnv_callFn_ne_panic m dec vars⟩

/-- conversions never panic (restates `C06_never_panics`) -/
theorem C03_convert_total : ∀ m v t s, convert m v t ≠ .panic s := C06_never_panics.2.2

/-- every default function, looked up by any name and called with any arguments, returns a value
or an error with a code (restates `C08_never_panics`, `C08_value_or_error`) -/
theorem C03_functions_total (m : Mgr) (name : List Rune) (args : List V) :
    (∀ s, callFn m name args ≠ .panic s) ∧
    ((∃ v, callFn m name args = .ok v) ∨ (∃ c ∈ callCodes, callFn m name args = .err c)) :=
  ⟨C08_never_panics m name args, C08_value_or_error m name args⟩

/-! ## 4. tokenizers

`tokenize cfg o c = drain cfg o (c.length + 3) (TState.start c)`: the driver's loop calls
NextToken at most `c.length + 3` times.  A short list could therefore mean "the model's fuel ran
out".  It never does:

* generic / expression / csv: the list equals `streamSpec cfg o c`, which has no loop fuel at all
  (C15);
* all four kinds, mustache included: every NextToken call that returns a token consumes at least
  one input slot or emits the final Eof (`readNext_progress`), so at most `c.length + 2` tokens
  exist (`tokBudget`), the loop ends in a state where NextToken answers `nil`, that `nil` means
  "input exhausted and Eof dealt with" (not "inner fuel exhausted"), and any larger fuel gives the
  same list. -/

/-- **C03, tokenizers (generic, expression, every csv configuration)**: for every option set and
every input the token list is the specification stream (restates `C15_options_factor`) -/
theorem C03_tokenize_total (cfg : Cfg) (hk : cfg.kind ≠ .mustache) (hc : RawContract cfg)
    (o : Opts) (c : List Rune) : tokenize cfg o c = streamSpec cfg o c :=
  C15_options_factor cfg hk hc o c

theorem C03_tokenize_generic (o : Opts) (c : List Rune) :
    tokenize genericCfg o c = streamSpec genericCfg o c := C15_generic o c

theorem C03_tokenize_expression (o : Opts) (c : List Rune) :
    tokenize expressionCfg o c = streamSpec expressionCfg o c := C15_expression o c

theorem C03_tokenize_csv (seps quotes : List Rune) (o : Opts) (c : List Rune) :
    tokenize (csvCfg seps quotes) o c = streamSpec (csvCfg seps quotes) o c :=
  C15_csv seps quotes o c

/-- **C03, tokenizers (all four kinds)**: the token loop with the driver's fuel is complete.
`st'` is the state in which the loop stopped; there NextToken answers `nil`, and after that
answer the scanner is at the end of the input with `last = Eof` — the `nil` is the genuine end
of the stream, neither the loop's fuel nor ReadNextToken's inner fuel. -/
theorem C03_tokenize_complete (cfg : Cfg) (hc : RawContract cfg) (o : Opts) (c : List Rune) :
    ∃ st', drainState cfg o (c.length + 3) (TState.start c) = st' ∧
      st'.s.WF ∧ st'.s.content = c ∧
      (nextTok cfg o st').1 = none ∧
      (nextTok cfg o st').2.s.peek = none ∧ (nextTok cfg o st').2.last = TT.eof := by
  obtain ⟨hi, hcont, hn⟩ := drainState_complete cfg hc o (c.length + 3) (TState.start c)
    (loopOK_start c) (by rw [tokBudget_start]; omega)
  refine ⟨_, rfl, hi.wf, hcont, hn, ?_⟩
  rw [nextTok_of_empty cfg o _ hi.cache] at hn ⊢
  exact readNext_none_exhausted cfg hc o _ hi.wf hn

/-- … any larger fuel yields the same list, and the list has at most `c.length + 2` tokens -/
theorem C03_tokenize_fuel (cfg : Cfg) (hc : RawContract cfg) (o : Opts) (c : List Rune) :
    (∀ k, drain cfg o (c.length + 3 + k) (TState.start c) = tokenize cfg o c) ∧
    (tokenize cfg o c).length ≤ c.length + 2 := by
  refine ⟨fun k => ?_, ?_⟩
  · exact (drain_fuel_irrelevant cfg hc o (c.length + 3) (TState.start c) (c.length + 3 + k)
      (loopOK_start c) (by rw [tokBudget_start]; omega) (by rw [tokBudget_start]; omega)).symm
  · have := drain_length_le cfg hc o (c.length + 3) (TState.start c) (loopOK_start c)
    rw [tokBudget_start] at this
    exact this

/-- **C03, mustache tokenizer** -/
theorem C03_tokenize_mustache (o : Opts) (c : List Rune) :
    (∃ st', drainState mustacheCfg o (c.length + 3) (TState.start c) = st' ∧
      st'.s.WF ∧ st'.s.content = c ∧
      (nextTok mustacheCfg o st').1 = none ∧
      (nextTok mustacheCfg o st').2.s.peek = none ∧ (nextTok mustacheCfg o st').2.last = TT.eof) ∧
    (∀ k, drain mustacheCfg o (c.length + 3 + k) (TState.start c) = tokenize mustacheCfg o c) ∧
    (tokenize mustacheCfg o c).length ≤ c.length + 2 :=
  ⟨C03_tokenize_complete _ rawContract_mustache o c,
   (C03_tokenize_fuel _ rawContract_mustache o c).1,
   (C03_tokenize_fuel _ rawContract_mustache o c).2⟩

/-- one NextToken call that returns a token consumes input or emits the final Eof: the budget
`(unread slots + 1) + (1 if Eof is still due)` strictly decreases -/
theorem C03_nextTok_progress (cfg : Cfg) (hc : RawContract cfg) (o : Opts) (st : TState)
    (hi : LoopOK st) (t : Tok) (h : (nextTok cfg o st).1 = some t) :
    LoopOK (nextTok cfg o st).2 ∧ tokBudget (nextTok cfg o st).2 < tokBudget st :=
  ⟨(nextTok_progress cfg hc o st hi t h).1, (nextTok_progress cfg hc o st hi t h).2.2⟩

/-! ## 5. quote codecs -/

/-- decoding is a total function (by construction); text that is not a quoted literal is returned
unchanged and the result is never longer than the input (restates the C14 shape theorems) -/
theorem C03_decode_total (q : Rune) (v : List Rune) :
    (stripQ q v = none → decodeGeneric q v = v) ∧
    (stripQ q v = none → decodeEsc q v = v) ∧
    (decodeGeneric q v).length ≤ v.length ∧
    (decodeEsc q v).length ≤ v.length :=
  ⟨C14_decode_untouched_generic q v, C14_decode_untouched_esc q v,
   C14_decode_length_le_generic q v, C14_decode_length_le q v⟩

/-! ## 6. templates -/

/-- setting a template never runs out of fuel (the parser is called with `flat.length + 1`) -/
theorem C03_parseTemplate_total (src : List Rune) : parseTemplate src ≠ .error .outOfFuel := by
  rcases parseTemplate_cases src with h | ⟨e, hl, h⟩ | h | ⟨flat, _, h⟩
  · rw [h]; intro h'; cases h'
  · rw [h]; intro h'; injection h' with h'; subst h'
    exact lexical_noFuel _ hl
  · rw [h]; intro h'; cases h'
  · rw [h]
    have := parseTop_fuel (flat.length + 1) flat (Nat.le_refl _)
    cases hp : parseTop (flat.length + 1) flat with
    | error e => simp only; intro h'; injection h' with h'; subst h'; exact this hp
    | ok tree => simp only; intro h'; cases h'

/-- every tree produced by the parser from the output of lexical analysis contains only
value / variable / escapedVariable / section / invertedSection / comment nodes … -/
theorem C03_parsed_renderable (toks : List Tok) (flat : List MFlat) (f : Nat) (tree : MToks)
    (hl : lexical toks = .ok flat) (hp : parseTop f flat = .ok tree) : tree.renderable = true :=
  parseTop_renderable f flat tree (lexical_out toks flat hl) hp

/-- … so rendering it succeeds, whatever the variables -/
theorem C03_render_ok_of_parsed (toks : List Tok) (flat : List MFlat) (f : Nat) (tree : MToks)
    (hl : lexical toks = .ok flat) (hp : parseTop f flat = .ok tree)
    (vars : List (List Rune × List Rune)) : ∃ out, renderToks vars tree = .ok out :=
  renderToks_ok vars tree (C03_parsed_renderable toks flat f tree hl hp)

/-- the same for the result of `parseTemplate` -/
theorem C03_render_ok_of_template (src : List Rune) (p : Parsed) (h : parseTemplate src = .ok p)
    (vars : List (List Rune × List Rune)) : ∃ out, renderToks vars p.tree = .ok out := by
  rcases parseTemplate_cases src with h1 | ⟨e, _, h1⟩ | h1 | ⟨flat, hl, h1⟩
  · rw [h1] at h; cases h; exact ⟨[], by simp only [renderToks]⟩
  · rw [h1] at h; cases h
  · rw [h1] at h; cases h
  · rw [h1] at h
    cases hp : parseTop (flat.length + 1) flat with
    | error e => rw [hp] at h; cases h
    | ok tree =>
      rw [hp] at h; cases h
      exact C03_render_ok_of_parsed _ flat _ tree hl hp vars

/-- on an arbitrary tree the renderer has exactly one error, INTERNAL (Partial / Unknown /
SectionEnd typed nodes) -/
theorem C03_render_errors (vars : List (List Rune × List Rune)) (tree : MToks) :
    (∃ out, renderToks vars tree = .ok out) ∨ renderToks vars tree = .error .internal := by
  cases h : renderToks vars tree with
  | ok out => exact .inl ⟨out, rfl⟩
  | error e => rw [renderToks_err vars tree e h]; exact .inr rfl

/-- **C03, templates**: set-and-render yields a text, or exactly the error of the template
parser — which is never "out of fuel"; rendering itself adds no error -/
theorem C03_render_outcome (src : List Rune) (vars : List (List Rune × List Rune)) :
    (∃ p out, parseTemplate src = .ok p ∧ renderTemplate src vars = .ok out) ∨
    (∃ e, parseTemplate src = .error e ∧ renderTemplate src vars = .error e ∧ e ≠ .outOfFuel) := by
  unfold renderTemplate
  cases h : parseTemplate src with
  | error e =>
    refine .inr ⟨e, rfl, rfl, ?_⟩
    intro he; subst he; exact C03_parseTemplate_total src h
  | ok p =>
    obtain ⟨out, ho⟩ := C03_render_ok_of_template src p h vars
    exact .inl ⟨p, out, rfl, ho⟩

theorem C03_render_total (src : List Rune) (vars : List (List Rune × List Rune)) :
    renderTemplate src vars ≠ .error .outOfFuel := by
  rcases C03_render_outcome src vars with ⟨_, out, _, h⟩ | ⟨e, _, h, hne⟩
  · rw [h]; intro h'; cases h'
  · rw [h]; intro h'; injection h' with h'; exact hne h'


/-! ## 7. coverage

| entry point (Go)                                   | model                         | theorem |
|----------------------------------------------------|-------------------------------|---------|
| `ExpressionCalculator.SetExpression` (syntax)      | `runParse`                    | `C03_parse_total` |
| `…EvaluateUsingVariablesAndFunctions`              | `evaluate (calcEnv …)`        | `C03_evaluate_total`, `C03_evaluate_outcome` |
| variant operators, conversions                     | `binop`, `unop`, `convert`    | `C03_ops_total`, `C03_calc_ops_total`, `C03_convert_total` |
| default functions                                  | `callFn`                      | `C03_functions_total` |
| generic / expression / csv tokenizer               | `tokenize cfg`                | `C03_tokenize_total`, `C03_tokenize_complete`, `C03_tokenize_fuel` |
| mustache tokenizer                                 | `tokenize mustacheCfg`        | `C03_tokenize_mustache` |
| quote decoding                                     | `decodeGeneric`, `decodeEsc`  | `C03_decode_total` |
| `MustacheTemplate.SetTemplate`                     | `parseTemplate`               | `C03_parseTemplate_total` |
| `MustacheTemplate.EvaluateWithVariables`           | `renderTemplate`              | `C03_render_total`, `C03_render_outcome` |
-/

/-- **C03**: every entry point of the model, with the fuel its driver uses, returns normally —
no panic, no exhausted fuel — and each evaluating call yields a result or an error. -/
theorem C03_summary :
    -- expression set
    (∀ toks : List (ETok String), runParse (16 * (toks.length + 2)) toks ≠ .error .outOfFuel) ∧
    -- expression evaluate
    (∀ (f : Nat) (toks : List (ETok String)) (st : PState String),
      (∀ tok ∈ toks, Sound.Canon tok) → toks.length < 2 ^ 63 → runParse f toks = .ok st →
      ∀ (m : Mgr) (dec : String → V) (vars : List (List Rune × V)),
        (∃ v, evaluate (calcEnv m dec vars) st.out = .ok v) ∨
        (∃ c, evaluate (calcEnv m dec vars) st.out = .err c)) ∧
    -- operators, conversions, functions
    (∀ m op a b s, binop m op a b ≠ .panic s) ∧
    (∀ op a s, unop op a ≠ .panic s) ∧
    (∀ m v t s, convert m v t ≠ .panic s) ∧
    (∀ m name args s, callFn m name args ≠ .panic s) ∧
    -- tokenizers
    (∀ o c, tokenize genericCfg o c = streamSpec genericCfg o c) ∧
    (∀ o c, tokenize expressionCfg o c = streamSpec expressionCfg o c) ∧
    (∀ seps quotes o c, tokenize (csvCfg seps quotes) o c = streamSpec (csvCfg seps quotes) o c) ∧
    (∀ cfg, cfg = genericCfg ∨ cfg = expressionCfg ∨ (∃ seps quotes, cfg = csvCfg seps quotes) ∨
        cfg = mustacheCfg →
      ∀ o c, (nextTok cfg o (drainState cfg o (c.length + 3) (TState.start c))).1 = none ∧
        ∀ k, drain cfg o (c.length + 3 + k) (TState.start c) = tokenize cfg o c) ∧
    -- decode
    (∀ q v, (decodeGeneric q v).length ≤ v.length ∧ (decodeEsc q v).length ≤ v.length) ∧
    -- template set + render
    (∀ src, parseTemplate src ≠ .error .outOfFuel) ∧
    (∀ src vars, (∃ out, renderTemplate src vars = .ok out) ∨
      (∃ e, renderTemplate src vars = .error e ∧ parseTemplate src = .error e ∧ e ≠ .outOfFuel)) := by
  refine ⟨fun toks => C02_fuel_suffices toks _ (Nat.le_refl _),
    fun f toks st hc hlen h m dec vars => C03_evaluate_outcome f toks st hc hlen h m dec vars,
    C06_never_panics.1, C06_never_panics.2.1, C06_never_panics.2.2, C08_never_panics,
    C15_generic, C15_expression, C15_csv, ?_,
    fun q v => ⟨C14_decode_length_le_generic q v, C14_decode_length_le q v⟩,
    C03_parseTemplate_total, ?_⟩
  · intro cfg hcfg o c
    have hc : RawContract cfg := by
      rcases hcfg with rfl | rfl | ⟨seps, quotes, rfl⟩ | rfl
      · exact rawContract_generic
      · exact rawContract_expression
      · exact rawContract_csv seps quotes
      · exact rawContract_mustache
    obtain ⟨_, rfl, _, _, hn, _⟩ := C03_tokenize_complete cfg hc o c
    exact ⟨hn, (C03_tokenize_fuel cfg hc o c).1⟩
  · intro src vars
    rcases C03_render_outcome src vars with ⟨_, out, _, h⟩ | ⟨e, h1, h2, h3⟩
    · exact .inl ⟨out, h⟩
    · exact .inr ⟨e, h2, h1, h3⟩

/-! ### non-vacuity (kernel-evaluated) -/

/-- `{{#a}}x{{/a}}` tokenizes (mustache), the loop's final state answers `nil` -/
example :
    (nextTok mustacheCfg mustacheOpts
      (drainState mustacheCfg mustacheOpts 16
        (TState.start [123, 123, 35, 97, 125, 125, 120, 123, 123, 47, 97, 125, 125]))).1 = none := by
  decide

example : (tokenize mustacheCfg mustacheOpts
    [123, 123, 35, 97, 125, 125, 120, 123, 123, 47, 97, 125, 125]).length = 9 := by decide

/-- `1 + max(2, x)`: accepted by the parser, so `C03_evaluate_total` applies (its hypotheses are
satisfiable), for every manager, decoder and variable assignment -/
def c03Example : Expr String :=
  .bin .plus (.const "1") (.call [109, 97, 120] (.cons (.const "2") (.cons (.var [120]) .nil)))

example (m : Mgr) (dec : String → V) (vars : List (List Rune × V)) (s : String) :
    evaluate (calcEnv m dec vars)
      (⟨[], c03Example.postorder, Expr.addVars [] c03Example.varOcc⟩ : PState String).out
        ≠ .panic s :=
  C03_evaluate_total 200 c03Example.unparse _
    (C02_sentence_canonical c03Example (by decide)) (by decide)
    (C02_complete_bound c03Example (by decide) 200 (by decide)) m dec vars s

end Verif
