/-
C11 — the string scanner is a faithful cursor with position-only line/column.

All theorems quantify over every content (`List Rune`) and every operation history.
`lcUpTo content k` (Model/Scanner.lean) is the SPEC: what a fresh forward scan that consumed
`k` slots reports.
-/
import Verif.Model.Scanner

namespace Verif
namespace Scanner

/-- Well-formedness = the cursor is inside `0 … len+1` and line/column are *the function
`lcUpTo` of the position* (so they cannot depend on the history). -/
def WF (s : Scanner) : Prop :=
  s.pos ≤ s.content.length + 1 ∧ (s.line, s.col) = lcUpTo s.content s.pos

theorem lcUpTo_succ_le (c : List Rune) (k : Nat) (h : k + 1 ≤ c.length) :
    lcUpTo c (k+1) = stepLC c (k+1) (lcUpTo c k) := by
  simp [lcUpTo, h]

theorem lcUpTo_succ_gt (c : List Rune) (k : Nat) (h : ¬ k + 1 ≤ c.length) :
    lcUpTo c (k+1) = lcUpTo c k := by
  simp [lcUpTo, h]

theorem isLine_false_of_isColumn (b cur a : Option Rune) (h : isColumn cur = true) :
    isLine b cur a = false := by
  unfold isColumn at h
  unfold isLine
  simp at h
  simp [h.1, h.2]

theorem stepLC_column (c : List Rune) (k : Nat) (lc : Nat × Nat)
    (h : isColumn (slot c k) = true) : stepLC c k lc = (lc.1, lc.2 + 1) := by
  unfold stepLC
  simp [isLine_false_of_isColumn _ _ _ h, h]

theorem new_wf (c : List Rune) : (Scanner.new c).WF := by
  simp [WF, Scanner.new, lcUpTo]

theorem read_content (s : Scanner) : (s.read).2.content = s.content := by
  unfold read; split
  · rfl
  · split <;> rfl

theorem read_wf (s : Scanner) (h : s.WF) : (s.read).2.WF := by
  obtain ⟨h1, h2⟩ := h
  unfold read
  split
  · exact ⟨h1, h2⟩
  · split
    · rename_i hgt hgt2
      refine ⟨by simp; omega, ?_⟩
      simp only
      rw [lcUpTo_succ_gt _ _ (by omega)]
      exact h2
    · rename_i hgt hgt2
      refine ⟨by simp; omega, ?_⟩
      simp only
      rw [lcUpTo_succ_le _ _ (by omega), ← h2]

theorem unread_content (s : Scanner) : s.unread.content = s.content := by
  unfold unread; split
  · rfl
  · split
    · rfl
    · split <;> rfl

theorem unread_wf (s : Scanner) (h : s.WF) : s.unread.WF := by
  obtain ⟨h1, h2⟩ := h
  unfold unread
  split
  · exact ⟨h1, h2⟩
  · rename_i hpos
    split
    · rename_i hgt
      refine ⟨by simp; omega, ?_⟩
      simp only
      have : s.pos = (s.pos - 1) + 1 := by omega
      rw [this, lcUpTo_succ_gt _ _ (by omega)] at h2
      exact h2
    · rename_i hgt
      split
      · rename_i hcol
        refine ⟨by simp; omega, ?_⟩
        simp only
        have hp : s.pos = (s.pos - 1) + 1 := by omega
        rw [hp, lcUpTo_succ_le _ _ (by omega)] at h2
        rw [← hp] at h2
        rw [stepLC_column _ _ _ hcol] at h2
        have e1 : s.line = (lcUpTo s.content (s.pos - 1)).1 := by
          have := congrArg Prod.fst h2; simpa using this
        have e2 : s.col = (lcUpTo s.content (s.pos - 1)).2 + 1 := by
          have := congrArg Prod.snd h2; simpa using this
        rw [e1, e2]
        simp
      · exact ⟨by simp; omega, rfl⟩

theorem unreadMany_content (n : Nat) (s : Scanner) : (s.unreadMany n).content = s.content := by
  induction n generalizing s with
  | zero => rfl
  | succ n ih => simp [unreadMany, ih, unread_content]

theorem unreadMany_wf (n : Nat) (s : Scanner) (h : s.WF) : (s.unreadMany n).WF := by
  induction n generalizing s with
  | zero => exact h
  | succ n ih => exact ih _ (unread_wf s h)

theorem reset_wf (s : Scanner) : s.reset.WF := by
  simp [WF, reset, lcUpTo]

theorem apply_wf (s : Scanner) (op : ScanOp) (h : s.WF) : (s.apply op).WF := by
  cases op with
  | read => exact read_wf s h
  | unread => exact unread_wf s h
  | unreadMany n => exact unreadMany_wf n s h
  | peek => exact h
  | peekLine => exact h
  | peekColumn => exact h
  | reset => exact reset_wf s

theorem apply_content (s : Scanner) (op : ScanOp) : (s.apply op).content = s.content := by
  cases op with
  | read => exact read_content s
  | unread => exact unread_content s
  | unreadMany n => exact unreadMany_content n s
  | peek => rfl
  | peekLine => rfl
  | peekColumn => rfl
  | reset => rfl

theorem run_wf (s : Scanner) (ops : List ScanOp) (h : s.WF) : (s.run ops).WF := by
  induction ops generalizing s with
  | nil => exact h
  | cons op ops ih => exact ih _ (apply_wf s op h)

theorem run_content (s : Scanner) (ops : List ScanOp) : (s.run ops).content = s.content := by
  induction ops generalizing s with
  | nil => rfl
  | cons op ops ih =>
    show ((s.apply op).run ops).content = s.content
    rw [ih, apply_content]

/-! ## The property theorems -/

/-- **C11 (a)**: after *any* history of operations on a fresh scanner, the content is
unchanged, the cursor is within `0 … len+1` and the reported line and column equal what a
fresh forward scan to that position reports — they depend on the position only. -/
theorem C11_line_column_position_only (c : List Rune) (ops : List ScanOp) :
    let s := (Scanner.new c).run ops
    s.content = c ∧ s.pos ≤ c.length + 1 ∧ (s.line, s.col) = lcUpTo c s.pos := by
  have hw := run_wf (Scanner.new c) ops (new_wf c)
  have hc : ((Scanner.new c).run ops).content = c := run_content (Scanner.new c) ops
  refine ⟨hc, ?_, ?_⟩
  · have := hw.1; rw [hc] at this; exact this
  · have := hw.2; rw [hc] at this; exact this

/-- **C11 (b)**: `read` returns the next character, or nothing at/after the end, and advances
the cursor by exactly one slot unless the end-of-input slot was already consumed. -/
theorem C11_read_spec (s : Scanner) :
    (s.read).1 = (if s.pos < s.content.length then s.content[s.pos]? else none) ∧
    (s.read).2.pos = (if s.pos ≤ s.content.length then s.pos + 1 else s.pos) := by
  unfold read
  split
  · rename_i h
    have h1 : ¬ s.pos < s.content.length := by omega
    have h2 : ¬ s.pos ≤ s.content.length := by omega
    simp [h1, h2]
  · split
    · rename_i h h'
      have h1 : ¬ s.pos < s.content.length := by omega
      have h2 : s.pos ≤ s.content.length := by omega
      simp [h1, h2]
    · rename_i h h'
      have h1 : s.pos < s.content.length := by omega
      have h2 : s.pos ≤ s.content.length := by omega
      simp [h1, h2, slot]

/-- **C11 (c)**: `unread` steps back exactly one `read` (including the read that consumed the
end-of-input slot): for every reachable state that has not yet consumed the EOF slot. -/
theorem C11_unread_read (s : Scanner) (h : s.WF) (hp : s.pos ≤ s.content.length) :
    (s.read).2.unread = s := by
  have hr := read_wf s h
  have hu := unread_wf _ hr
  have hc : (s.read).2.unread.content = s.content := by rw [unread_content, read_content]
  have hpos : (s.read).2.unread.pos = s.pos := by
    have hrp := (C11_read_spec s).2
    simp [hp] at hrp
    unfold unread
    rw [hrp]
    simp
    split
    · rfl
    · split <;> rfl
  obtain ⟨_, h2⟩ := h
  obtain ⟨_, hu2⟩ := hu
  rw [hc, hpos, ← h2] at hu2
  have e1 := congrArg Prod.fst hu2
  have e2 := congrArg Prod.snd hu2
  simp at e1 e2
  cases hs : (s.read).2.unread with
  | mk c p l k =>
    rw [hs] at hc hpos e1 e2
    simp at hc hpos e1 e2
    cases s
    simp_all

/-- **C11 (d)**: `unread` is a no-op at the start. -/
theorem C11_unread_at_start (s : Scanner) (h : s.pos = 0) : s.unread = s := by
  unfold unread; simp [h]

/-- **C11 (e)**: multi-unread is iterated unread. -/
theorem C11_unreadMany_iter (n : Nat) (s : Scanner) :
    s.unreadMany (n+1) = (s.unread).unreadMany n := rfl

/-- **C11 (f)**: reset returns to the start state of a fresh scanner over the same content. -/
theorem C11_reset (s : Scanner) : s.reset = Scanner.new s.content := by
  simp [reset, Scanner.new]

/-- **C11 (g)**: peek returns what the next read returns and (being a pure function of the
state) moves nothing. -/
theorem C11_peek_is_next (s : Scanner) : s.peek = (s.read).1 := by
  unfold peek read
  split
  · rename_i h
    simp [slot]; omega
  · split
    · rename_i h h'
      simp [slot]; omega
    · rfl

/-- **C11 (h)**: when a next character exists, the peeked line and column are those reported
after the next read. -/
theorem C11_peekLC_next (s : Scanner) (hp : s.pos < s.content.length) :
    (s.peekLine, s.peekColumn) = ((s.read).2.line, (s.read).2.col) := by
  unfold peekLine peekColumn read stepLC
  have h1 : ¬ s.pos > s.content.length := by omega
  have h2 : ¬ s.pos + 1 > s.content.length := by omega
  simp only [h1, h2, if_false]
  simp only [Nat.add_sub_cancel]
  cases hl : isLine (slot s.content s.pos) (slot s.content (s.pos + 1)) (slot s.content (s.pos + 2)) <;>
  cases hcl : isColumn (slot s.content (s.pos + 1)) <;> simp
  have := isLine_false_of_isColumn (slot s.content s.pos) _ (slot s.content (s.pos + 2)) hcl
  rw [hl] at this; cases this

/-- **C11 (i)** the end-of-input convention: peeking at the end reports the current line and
one column past the last character (the position C12 assigns to the Eof token). -/
theorem C11_peekLC_eof (s : Scanner) (hp : s.pos ≥ s.content.length) :
    (s.peekLine, s.peekColumn) = (s.line, s.col + 1) := by
  have hs : slot s.content (s.pos + 1) = none := by
    simp [slot]; omega
  unfold peekLine peekColumn
  rw [hs]
  simp [isLine, isColumn]

/-- Non-vacuity: a reachable, non-trivial state satisfying the hypotheses of (c) and (h). -/
example : ((Scanner.new [97, 13, 10, 98]).run [.read, .read]).pos < 4 := by decide

end Scanner
end Verif
